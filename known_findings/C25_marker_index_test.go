package api

// Witness for property C25 (obligation api.parseFromRows#post:valid): a from_row/to_row marker is
// client input; parseFromRows accepted any tag index, and the window test then indexed the fixed
// 48-element tag array with it (index out of range panic in lessThan).

import "testing"

func TestShvcWitnessC25Marker(t *testing.T) {
	enc, err := encodeFromRows(&RowMarker{Time: 100, Tags: []RawTag{{Index: 100, Value: 1}}})
	if err != nil {
		t.Fatal(err)
	}
	m, err := parseFromRows(enc)
	if err != nil {
		return // rejected: fine
	}
	defer func() {
		if r := recover(); r != nil {
			t.Fatalf("SHVC-WITNESS: REPRODUCED accepted row marker makes the window test panic: %v", r)
		}
	}()
	limitQueries([][]tsSelectRow{{{time: 100}}}, m, RowMarker{}, false, 10)
}
