package data_model

import (
	"testing"
	"time"

	"pgregory.net/rand"
)

// Three string-top values, each with a counter above 2^63 (legal: counters go up to MaxFloat32), capacity 2:
// mapping the third value must come back (folding into the tail is fine), not spin forever in resample.
func TestShvcWitnessStringTopHang(t *testing.T) {
	done := make(chan struct{})
	go func() {
		defer close(done)
		rng := rand.New()
		var item MultiItem
		for _, tag := range []string{"a", "b", "c"} {
			mv := item.MapStringTop(rng, 2, TagUnion{S: tag}, 1e30)
			mv.AddCounterHost(rng, 1e30, TagUnion{})
		}
	}()
	select {
	case <-done:
	case <-time.After(5 * time.Second):
		t.Fatalf("MapStringTop did not return within 5s (resample can no longer evict: 1<<sampleFactorLog2 overflowed)")
	}
}
