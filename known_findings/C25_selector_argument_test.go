package api

// Witness for property C25 (obligation api.(*handlerWhat).appendRowValues#assert:own_argument; the same for
// copyRowValuesAt on the series path): every table row has one column per requested function. The storage query of a
// handler-what holds each DISTINCT selector once (count, count_sec and count_raw share one), the list of requested
// functions holds every function; the value of function i was computed with the argument (quantile level) of
// selector i. After a function that shares its selector with the previous one, every percentile column showed
// another percentile (p50 showed p99, p99 showed the 0-quantile, i.e. the minimum).

import (
	"math"
	"testing"

	"github.com/VKCOM/statshouse/internal/data_model"
	"github.com/VKCOM/statshouse/internal/promql"
	"github.com/hrissan/tdigest"
)

func TestShvcWitnessC25Selector(t *testing.T) {
	h := &requestHandler{Handler: &Handler{}}
	whats := h.getHandlerWhat([]promql.SelectorWhat{{Digest: promql.DigestCount}, {Digest: promql.DigestCountSec}, {Digest: promql.DigestP50}, {Digest: promql.DigestP99}})
	if len(whats) != 1 || len(whats[0].sel) != 4 {
		t.Fatalf("setup: %d handler-whats", len(whats))
	}
	row := tsSelectRow{}
	row.count = 1000
	row.percentile = tdigest.New()
	for i := 1; i <= 1000; i++ {
		row.percentile.Add(float64(i), 1)
	}
	lod := data_model.LOD{StepSec: 1}
	data := whats[0].appendRowValues(nil, &row, 1, &lod)
	if len(data) != 4 {
		t.Fatalf("setup: %d columns", len(data))
	}
	for i, s := range whats[0].sel {
		if s.Digest == promql.DigestP50 && math.Abs(float64(data[i])-500) > 50 {
			t.Fatalf("SHVC-WITNESS: REPRODUCED the p50 column of values 1..1000 holds %v", float64(data[i]))
		}
		if s.Digest == promql.DigestP99 && math.Abs(float64(data[i])-990) > 50 {
			t.Fatalf("SHVC-WITNESS: REPRODUCED the p99 column of values 1..1000 holds %v", float64(data[i]))
		}
	}
}
