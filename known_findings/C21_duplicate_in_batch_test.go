package pcache

// Witness for property C21 (obligation pcache.(*MappingsCache).AddValues#pre:1:(*pcache.MappingsCache).addItem:absent): the
// mappings cache keeps its size and access-time accounting exact. AddValues filtered out the strings already cached
// before inserting anything, so the same string twice in one batch was inserted twice: one element, but its size and
// time stamp counted twice (the inflated size later causes premature eviction; it never goes away, because removing the
// element gives back its size once).

import "testing"

func TestShvcWitnessC21(t *testing.T) {
	var data []byte
	c, err := LoadMappingsCacheSlice(&data, 1<<20)
	if err != nil {
		t.Fatalf("setup: %v", err)
	}
	c.AddValues(100, []MappingPair{{Str: "a", Value: 1}})
	_, one, _, _, _, _, _ := c.Stats()
	var data2 []byte
	c2, _ := LoadMappingsCacheSlice(&data2, 1<<20)
	c2.AddValues(100, []MappingPair{{Str: "a", Value: 1}, {Str: "a", Value: 1}})
	elements, size, _, _, _, _, _ := c2.Stats()
	if elements != 1 {
		t.Fatalf("setup: %d elements", elements)
	}
	if size != one {
		t.Fatalf("SHVC-WITNESS: REPRODUCED one cached string is accounted with %d bytes, a single insertion costs %d", size, one)
	}
}
