package receiver

// Witness for property C13 (obligation receiver.protobufUnmarshalStatshouseMetric#assert:unique_element_is_varint): all
// wire formats decode the same batch identically. A repeated int64 field written element by element (not packed) uses
// the varint wire type; the protobuf decoder accepted single `unique` elements only under the fixed64 wire type (and
// then read a varint), so a metric carrying unique=[7, 8] unpacked was delivered without its unique values.

import (
	"testing"

	"google.golang.org/protobuf/encoding/protowire"

	"github.com/VKCOM/statshouse/internal/data_model/gen2/tlstatshouse"
)

func TestShvcWitnessC13Unique(t *testing.T) {
	var pkt []byte
	pkt = protowire.AppendTag(pkt, 1, protowire.BytesType)
	pkt = protowire.AppendString(pkt, "m")
	pkt = protowire.AppendTag(pkt, 6, protowire.VarintType)
	pkt = protowire.AppendVarint(pkt, 7)
	pkt = protowire.AppendTag(pkt, 6, protowire.VarintType)
	pkt = protowire.AppendVarint(pkt, 8)
	var m tlstatshouse.MetricBytes
	if _, err := protobufUnmarshalStatshouseMetric(pkt, &m); err != nil {
		t.Fatalf("setup: %v", err)
	}
	if len(m.Unique) != 2 || m.Unique[0] != 7 || m.Unique[1] != 8 {
		t.Fatalf("SHVC-WITNESS: REPRODUCED unpacked unique values [7 8] decoded as %v", m.Unique)
	}
}
