package receiver

import (
	"os"
	"os/exec"
	"testing"

	"github.com/VKCOM/statshouse/internal/data_model/gen2/tlstatshouse"
)

// A 16-byte packet announces 2^32-1 metrics: the decoder must report a parse error, not try to allocate them.
func TestC13MsgpackHugeCollection(t *testing.T) {
	pkt := []byte{0x81, 0xa7, 'm', 'e', 't', 'r', 'i', 'c', 's', 0xdd, 0xff, 0xff, 0xff, 0xff}
	if os.Getenv("C13_CHILD") == "1" {
		var mb tlstatshouse.AddMetricsBatchBytes
		_, err := msgpackUnmarshalStatshouseAddMetricBatch(&mb, pkt)
		if err == nil {
			t.Fatalf("no error for a truncated batch")
		}
		return
	}
	cmd := exec.Command(os.Args[0], "-test.run=^TestC13MsgpackHugeCollection$")
	cmd.Env = append(os.Environ(), "C13_CHILD=1")
	out, err := cmd.CombinedOutput()
	if err != nil {
		n := len(out)
		if n > 600 {
			out = out[:600]
		}
		t.Fatalf("decoder process died on a 14-byte packet: %v\n%s", err, out)
	}
}
