package queue

// Witness for property C29 (obligations util.queue.(*Queue).AdjustCapacity#post:no_idle_slot and (*Queue).Release#post:no_idle_slot):
// the queue grants a waiting query whenever capacity frees. Raising the capacity frees capacity, but AdjustCapacity
// only stored the number and Release granted at most one waiter: with capacity 1, one active query and two users
// waiting, raising the capacity to 3 left both waiting, and the next Release admitted only one of them.

import (
	"context"
	"testing"
	"time"
)

func TestShvcWitnessC29Capacity(t *testing.T) {
	q := NewQueue(1)
	ctx := context.Background()
	if err := q.Acquire(ctx, "a"); err != nil {
		t.Fatal(err)
	}
	granted := make(chan string, 2)
	for _, u := range []string{"b", "c"} {
		u := u
		go func() { _ = q.Acquire(ctx, u); granted <- u }()
	}
	for {
		q.mx.Lock()
		n := len(q.waitingUsersByName)
		q.mx.Unlock()
		if n == 2 {
			break
		}
		time.Sleep(time.Millisecond)
	}
	q.AdjustCapacity(3) // two free slots, two users waiting
	got := 0
	timeout := time.After(500 * time.Millisecond)
	for got < 2 {
		select {
		case <-granted:
			got++
		case <-timeout:
			q.mx.Lock()
			a, m, w := q.activeQuery, q.maxActiveQuery, len(q.waitingUsersByName)
			q.mx.Unlock()
			t.Fatalf("SHVC-WITNESS: REPRODUCED capacity raised to %d with %d active: %d users still waiting (%d of 2 granted)", m, a, w, got)
		}
	}
}
