package api

// Witness for property C25 (obligation api.(*requestHandler).getTableFromLODs#assert:new_row_padded_to_earlier_columns):
// every table row has exactly one column per requested function, missing values are NaN. The requested functions are
// split into handler-whats (storage passes) of up to seven selectors each; a row first seen in a later pass was padded
// with one NaN per earlier PASS instead of one per earlier COLUMN, and a row missing from a pass got a single NaN
// whatever the width of the pass.

import (
	"context"
	"testing"
	"time"

	"github.com/VKCOM/statshouse/internal/data_model"
	"github.com/VKCOM/statshouse/internal/format"
	"github.com/VKCOM/statshouse/internal/promql"
)

func TestShvcWitnessC25Columns(t *testing.T) {
	loc, _ := time.LoadLocation("")
	mkRow := func(ts, tag1 int64) tsSelectRow {
		r := tsSelectRow{time: ts}
		r.tag[1] = tag1
		r.count = 1
		return r
	}
	meta := &format.MetricMetaValue{Tags: make([]format.MetricMetaTag, 3)}
	for i := range meta.Tags {
		meta.Tags[i].Index = int32(i)
		meta.Tags[i].RawKind = "int"
	}
	whats := []promql.SelectorWhat{
		{Digest: promql.DigestCount}, {Digest: promql.DigestSum}, {Digest: promql.DigestAvg},
		{Digest: promql.DigestMin}, {Digest: promql.DigestMax}, {Digest: promql.DigestStdDev},
		{Digest: promql.DigestCardinality}, {Digest: promql.DigestUnique},
	}
	p := tableReqParams{
		req:            seriesRequest{numResults: 100, by: []string{format.TagID(1)}, what: whats},
		metricMeta:     meta,
		desiredStepMul: 1,
		location:       loc,
	}
	lods := []data_model.LOD{{FromSec: 50, ToSec: 200, StepSec: 1, Location: loc}}
	passes := 0
	load := func(_ context.Context, _ *requestHandler, pq *queryBuilder, _ data_model.LOD, _ bool) ([][]tsSelectRow, error) {
		passes++
		if passes == 1 {
			return [][]tsSelectRow{{mkRow(100, 3)}}, nil
		}
		return [][]tsSelectRow{{mkRow(100, 5)}}, nil // another series: seen in the second pass only
	}
	h := &requestHandler{Handler: &Handler{HandlerOptions: HandlerOptions{location: loc}}}
	rows, _, err := h.getTableFromLODs(context.Background(), lods, p, load)
	if err != nil || passes != 2 || len(rows) != 2 {
		t.Fatalf("setup: the scenario needs two storage passes and two rows (passes %d, rows %d, err %v)", passes, len(rows), err)
	}
	for i := range rows {
		if len(rows[i].Data) != len(whats) {
			t.Fatalf("SHVC-WITNESS: REPRODUCED row %d (tag %d) has %d value columns, %d functions were requested", i, rows[i].row.tag[1], len(rows[i].Data), len(whats))
		}
	}
}
