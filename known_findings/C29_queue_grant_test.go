package queue

// Witness for property C29 (obligation util.queue.(*Queue).nextQueryLocked#post:grant):
// after AdjustCapacity lowers the capacity below the number of active queries, a Release must
// not admit a waiter while active >= capacity.

import (
	"context"
	"testing"
	"time"
)

func TestShvcWitnessC29(t *testing.T) {
	q := NewQueue(3)
	ctx := context.Background()
	for i := 0; i < 3; i++ {
		if err := q.Acquire(ctx, "u"); err != nil {
			t.Fatal(err)
		}
	}
	done := make(chan struct{})
	go func() { _ = q.Acquire(ctx, "w"); close(done) }()
	for {
		q.mx.Lock()
		n := len(q.waitingUsersByName)
		q.mx.Unlock()
		if n == 1 {
			break
		}
		time.Sleep(time.Millisecond)
	}
	q.AdjustCapacity(1)
	q.Release() // 3 -> 2 active, capacity 1: nobody may be admitted
	select {
	case <-done:
		q.mx.Lock()
		a, m := q.activeQuery, q.maxActiveQuery
		q.mx.Unlock()
		t.Fatalf("SHVC-WITNESS: REPRODUCED waiter admitted with active=%d capacity=%d", a, m)
	case <-time.After(200 * time.Millisecond):
	}
}
