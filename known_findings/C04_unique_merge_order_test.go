package data_model

import (
	"bytes"
	"testing"
)

func c04Sketch(from, n uint64) *ChUnique {
	u := &ChUnique{}
	for i := uint64(0); i < n; i++ {
		u.Insert(from + i)
	}
	return u
}

func c04Clone(u *ChUnique) *ChUnique {
	var c ChUnique
	c.Merge(*u)
	return &c
}

// The estimate of a merged sketch must not depend on which side is merged into which.
func TestShvcWitnessMergeOrder(t *testing.T) {
	big := c04Sketch(0, 200000)      // thinned: skipDegree > 0
	small := c04Sketch(1000000, 1000) // exact: skipDegree == 0
	if big.skipDegree == 0 || small.skipDegree != 0 {
		t.Skipf("unexpected degrees %d %d", big.skipDegree, small.skipDegree)
	}
	ab := c04Clone(big)
	ab.Merge(*small)
	ba := c04Clone(small)
	ba.Merge(*big)
	if ab.Size(false) != ba.Size(false) {
		t.Fatalf("big<-small estimates %d, small<-big estimates %d (same multiset of values)", ab.Size(false), ba.Size(false))
	}
}

// Same for the aggregator path, which merges an encoded sketch into an existing one.
func TestShvcWitnessMergeReadOrder(t *testing.T) {
	big := c04Sketch(0, 200000)
	small := c04Sketch(1000000, 1000)
	ab := c04Clone(big)
	if err := ab.MergeRead(bytes.NewBuffer(small.MarshallAppend(nil))); err != nil {
		t.Fatal(err)
	}
	ba := c04Clone(small)
	if err := ba.MergeRead(bytes.NewBuffer(big.MarshallAppend(nil))); err != nil {
		t.Fatal(err)
	}
	if ab.Size(false) != ba.Size(false) {
		t.Fatalf("big<-small estimates %d, small<-big estimates %d (same multiset of values)", ab.Size(false), ba.Size(false))
	}
}
