package metadata

// Witness for property C19 (obligation metadata.calcBudget#post:no_bonus_for_time_going_back): once the global budget
// is exhausted a metric may create at most its remaining budget (here the value set by a flood reset) plus the bonus
// for the steps that have elapsed. ResetFlood stores the unrounded current time as last_time_update; the next
// getOrCreateMapping in the same step passes pred = roundTime(now, step), which is smaller, and the uint32
// subtraction in calcBudget wrapped around: (pred-lastTimeUpdate)/step became ~858 million steps of bonus and the
// metric's budget jumped from the reset value to max-1.
//
// The test binary of this package links SQLite, which the pinned tree ships as an empty file: run with the
// amalgamation supplied through -overlay (internal/sqlite/sqlite0/sqlite3.c) or CGO_LDFLAGS.

import "testing"

func TestShvcWitnessC19(t *testing.T) {
	// reset to 5 at t=1003 (step 5): stored 1003; a create request at t=1004 is evaluated at pred=1000
	got := calcBudget(5, 1, 1003, 1000, 1000, 1, 5)
	if got > 4 {
		t.Fatalf("SHVC-WITNESS: REPRODUCED budget after one create is %d, the reset value 5 minus 1 allows at most 4", got)
	}
}
