// Copy this file into: internal/vkgo/binlog/fsbinlog/
//
// TestShvcWitnessC18: a byte damaged in the tail of a rotated binlog file (after
// the file's last levCrc32 record and before its ROTATE_TO record) must be
// noticed by replay.  The ROTATE_TO record carries the checksum of everything
// before it; the next file restarts the running checksum from its own header,
// so ROTATE_TO is the last place where such damage can be detected.

package fsbinlog

import (
	"bytes"
	"encoding/binary"
	"fmt"
	"path/filepath"
	"sort"
	"strings"
	"sync"
	"testing"
	"time"

	"github.com/myxo/gofs"

	"github.com/VKCOM/statshouse/internal/vkgo/binlog"
)

const shvcWitnessC18Magic = uint32(0x00c18c18)

func shvcWitnessC18Serialize(s string) []byte {
	out := make([]byte, 8, 8+len(s))
	binary.LittleEndian.PutUint32(out, shvcWitnessC18Magic)
	binary.LittleEndian.PutUint32(out[4:], uint32(len(s)))
	return append(out, s...)
}

type shvcWitnessC18Engine struct {
	mu        sync.Mutex
	offset    int64
	events    []string
	committed int64
	ready     chan struct{}
	once      sync.Once
}

func newShvcWitnessC18Engine() *shvcWitnessC18Engine {
	return &shvcWitnessC18Engine{committed: -1, ready: make(chan struct{})}
}

func (e *shvcWitnessC18Engine) Apply(payload []byte) (int64, error) {
	e.mu.Lock()
	defer e.mu.Unlock()
	if len(payload) < 8 {
		return e.offset, binlog.ErrorNotEnoughData
	}
	if binary.LittleEndian.Uint32(payload) != shvcWitnessC18Magic {
		return e.offset, binlog.ErrorUnknownMagic
	}
	n := int(binary.LittleEndian.Uint32(payload[4:]))
	if len(payload) < 8+n {
		return e.offset, binlog.ErrorNotEnoughData
	}
	e.events = append(e.events, string(payload[8:8+n]))
	e.offset += int64(AddPadding(8 + n))
	return e.offset, nil
}

func (e *shvcWitnessC18Engine) Skip(skipLen int64) (int64, error) {
	e.mu.Lock()
	defer e.mu.Unlock()
	e.offset += skipLen
	return e.offset, nil
}

func (e *shvcWitnessC18Engine) Commit(toOffset int64, snapshotMeta []byte, safeSnapshotOffset int64) error {
	e.mu.Lock()
	defer e.mu.Unlock()
	e.committed = toOffset
	return nil
}

func (e *shvcWitnessC18Engine) committedPos() int64 {
	e.mu.Lock()
	defer e.mu.Unlock()
	return e.committed
}

func (e *shvcWitnessC18Engine) Revert(toOffset int64) (bool, error) { return false, nil }
func (e *shvcWitnessC18Engine) ChangeRole(info binlog.ChangeRoleInfo) error {
	if info.IsReady {
		e.once.Do(func() { close(e.ready) })
	}
	return nil
}
func (e *shvcWitnessC18Engine) StartReindex(operator binlog.ReindexOperator) {}
func (e *shvcWitnessC18Engine) Split(offset int64, toShardID string) bool    { return false }
func (e *shvcWitnessC18Engine) Shutdown()                                    {}

func shvcWitnessC18Replay(t *testing.T, fs gofs.FS, prefix string) ([]string, error) {
	t.Helper()
	stop := make(chan struct{})
	defer close(stop)
	eng := newShvcWitnessC18Engine()
	reader, err := newBinlogReader(fs, nil, make(chan bool, 1), time.Hour, nil, &stat{}, stop)
	if err != nil {
		t.Fatal(err)
	}
	_, _, err = reader.readAllFromPosition(0, prefix, shvcWitnessC18Magic, eng, nil, false)
	return eng.events, err
}

func TestShvcWitnessC18(t *testing.T) {
	const (
		eventCount = 40
		fillerLen  = 300
		victim     = 3 // index of the event whose payload gets damaged; lives in the first file
	)
	fs := gofs.NewThreadSafeMemoryFs()
	dir := fs.TempDir()
	zeroDelay := time.Duration(0)
	options := Options{
		PrefixPath:     filepath.Join(dir, "shvc_witness_c18"),
		Magic:          shvcWitnessC18Magic,
		Fs:             fs,
		WriteCallDelay: &zeroDelay,
		MaxChunkSize:   4096,
	}

	// 1. write a binlog that rotates several times; the total amount of data stays far below
	// writeCrcEveryBytes, so no file contains a levCrc32 record.
	var want []string
	{
		if _, err := CreateEmptyFsBinlog(options); err != nil {
			t.Fatal(err)
		}
		bl, err := NewFsBinlog(nil, options)
		if err != nil {
			t.Fatal(err)
		}
		eng := newShvcWitnessC18Engine()
		done := make(chan error, 1)
		go func() { done <- bl.Run(0, nil, nil, eng) }()
		select {
		case <-eng.ready:
		case err := <-done:
			t.Fatalf("writer did not start: %v", err)
		}
		eng.mu.Lock()
		pos := eng.offset
		eng.mu.Unlock()
		for i := 0; i < eventCount; i++ {
			value := fmt.Sprintf("event-%03d-%s", i, strings.Repeat("x", fillerLen))
			next, err := bl.AppendASAP(pos, shvcWitnessC18Serialize(value))
			if err != nil {
				t.Fatal(err)
			}
			want = append(want, value)
			pos = next
		}
		for deadline := time.Now().Add(10 * time.Second); eng.committedPos() < pos; {
			if time.Now().After(deadline) {
				t.Fatalf("writer never committed %d", pos)
			}
			time.Sleep(time.Millisecond)
		}
		bl.RequestShutdown()
		if err := <-done; err != nil {
			t.Fatal(err)
		}
		if pos >= writeCrcEveryBytes {
			t.Fatalf("test setup: %d bytes written, a levCrc32 record may exist (threshold %d)", pos, writeCrcEveryBytes)
		}
	}

	// sanity: the undamaged binlog replays completely and without error
	if got, err := shvcWitnessC18Replay(t, fs, options.PrefixPath); err != nil {
		t.Fatalf("replay of the undamaged binlog failed: %v", err)
	} else if len(got) != len(want) {
		t.Fatalf("replay of the undamaged binlog delivered %d events, want %d", len(got), len(want))
	}

	// 2. find the first file and damage one payload byte of an event stored in it
	entries, err := fs.ReadDir(dir)
	if err != nil {
		t.Fatal(err)
	}
	var names []string
	for _, e := range entries {
		if strings.HasPrefix(e.Name(), filepath.Base(options.PrefixPath)) {
			names = append(names, e.Name())
		}
	}
	sort.Strings(names)
	if len(names) < 2 {
		t.Fatalf("test setup: binlog did not rotate, files: %v", names)
	}
	firstFile := filepath.Join(dir, names[0])
	data, err := fs.ReadFile(firstFile)
	if err != nil {
		t.Fatal(err)
	}
	var magicCrc32, magicRotateTo [4]byte
	binary.LittleEndian.PutUint32(magicCrc32[:], magicLevCrc32)
	binary.LittleEndian.PutUint32(magicRotateTo[:], magicLevRotateTo)
	if bytes.Contains(data, magicCrc32[:]) {
		t.Fatalf("test setup: first file %s contains a levCrc32 record", names[0])
	}
	rotateToAt := bytes.LastIndex(data, magicRotateTo[:])
	if rotateToAt < 0 {
		t.Fatalf("test setup: first file %s (%d bytes) has no ROTATE_TO record", names[0], len(data))
	}
	marker := []byte(fmt.Sprintf("event-%03d-", victim))
	at := bytes.Index(data, marker)
	if at < 0 || bytes.LastIndex(data, marker) != at {
		t.Fatalf("test setup: event %d not found exactly once in first file %s", victim, names[0])
	}
	flipAt := at + len(marker) + fillerLen/2 // in the middle of the filler of the payload string
	if flipAt >= rotateToAt || data[flipAt] != 'x' {
		t.Fatalf("test setup: byte to damage at %d is not inside the payload (ROTATE_TO at %d)", flipAt, rotateToAt)
	}
	damaged := append([]byte(nil), data...)
	damaged[flipAt] ^= 0x01 // 'x' -> 'y'
	// rotated files are made read-only by the writer
	if err := fs.Chmod(firstFile, defaultFilePerm); err != nil {
		t.Fatal(err)
	}
	if err := fs.WriteFile(firstFile, damaged, defaultFilePerm); err != nil {
		t.Fatal(err)
	}
	if reread, err := fs.ReadFile(firstFile); err != nil || !bytes.Equal(reread, damaged) {
		t.Fatalf("test setup: damaged file was not stored (err %v)", err)
	}

	// 3. replay everything from position 0 with a fresh engine
	got, replayErr := shvcWitnessC18Replay(t, fs, options.PrefixPath)

	// 4. verdict
	if replayErr == nil {
		corrupted := -1
		for i := range got {
			if i < len(want) && got[i] != want[i] {
				corrupted = i
				break
			}
		}
		t.Fatalf("SHVC-WITNESS: REPRODUCED replay of a binlog with a damaged byte (file %s, offset %d, before ROTATE_TO at %d) returned no error: "+
			"%d of %d events delivered, a corrupted event was delivered to the engine (first differing event index: %d); "+
			"the ROTATE_TO checksum was not compared with the running crc32",
			names[0], flipAt, rotateToAt, len(got), len(want), corrupted)
	}
	if !strings.Contains(replayErr.Error(), "crc32 mismatch") {
		t.Fatalf("replay of the damaged binlog failed, but not with a crc32 mismatch: %v", replayErr)
	}
	t.Logf("damage noticed: %v (events delivered before the error: %d)", replayErr, len(got))
}
