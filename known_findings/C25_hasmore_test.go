package api

// Witness for property C25 (obligation api.limitQueries#assert:more_exists): the has-more flag must be set
// exactly when rows beyond the limit exist in the requested window. With limit 1 and a group whose second
// row lies beyond the to-marker, limitQueries reported has-more although nothing is left in the window.

import "testing"

func TestShvcWitnessC25(t *testing.T) {
	r1 := tsSelectRow{time: 100}
	r2 := tsSelectRow{time: 200}
	to := RowMarker{Time: 150} // window ends before r2
	res, hasMore := limitQueries([][]tsSelectRow{{r1, r2}}, RowMarker{}, to, false, 1)
	if len(res) != 1 || res[0].time != 100 {
		t.Fatalf("unexpected rows: %v", res)
	}
	if !inRange(r1, RowMarker{}, to, false) || inRange(r2, RowMarker{}, to, false) {
		t.Fatalf("test setup: r1 must be inside and r2 outside the window")
	}
	if hasMore {
		t.Fatalf("SHVC-WITNESS: REPRODUCED has-more is set although no row beyond the limit lies inside the requested window")
	}
}
