package receiver

// Witness for property C13 (obligation receiver.msgpackUnmarshalStatshouseMetric#pre:19:msgp.WrapError:r1): decoding is
// safe for every packet. A MessagePack histogram entry with a length other than 2 was rejected with
// msgp.WrapError(err, ...) where err is nil at that point: the returned error has no cause and its Error() method
// dereferences nil - whoever prints the error handed to the parse-error callback with err.Error() panics.

import (
	"testing"

	"github.com/tinylib/msgp/msgp"

	"github.com/VKCOM/statshouse/internal/data_model/gen2/tlstatshouse"
)

func TestShvcWitnessC13Error(t *testing.T) {
	var pkt []byte
	pkt = msgp.AppendMapHeader(pkt, 1)
	pkt = msgp.AppendString(pkt, "histogram")
	pkt = msgp.AppendArrayHeader(pkt, 1)
	pkt = msgp.AppendArrayHeader(pkt, 3) // three numbers instead of [value, count]
	pkt = msgp.AppendFloat64(pkt, 1)
	pkt = msgp.AppendFloat64(pkt, 2)
	pkt = msgp.AppendFloat64(pkt, 3)
	var m tlstatshouse.MetricBytes
	_, err := msgpackUnmarshalStatshouseMetric(&m, pkt)
	if err == nil {
		t.Fatalf("setup: the packet must be rejected")
	}
	defer func() {
		if r := recover(); r != nil {
			t.Fatalf("SHVC-WITNESS: REPRODUCED the error returned for a malformed histogram entry panics when printed: %v", r)
		}
	}()
	_ = err.Error()
}
