package data_model

// Witness for property C02 (obligation data_model.transfer_value#assert:sum): a row that mixes a counter-only
// event with a value event has ValueMin == ValueMax but ValueSum != ValueMin*count. The agent does not send
// the sum for min == max and the aggregator rebuilds it as min*count.

import (
	"testing"

	"pgregory.net/rand"

	"github.com/VKCOM/statshouse/internal/data_model/gen2/tlstatshouse"
	"github.com/VKCOM/statshouse/internal/format"
)

func TestShvcWitnessC02(t *testing.T) {
	rng := rand.New()
	var src MultiValue
	src.AddCounterHost(rng, 1, TagUnion{})         // counter-only event
	src.AddValueCounterHost(rng, 7, 1, TagUnion{}) // value event, value 7
	if src.Value.ValueSum != 7 || src.Value.Count() != 2 {
		t.Fatalf("unexpected source row: sum %v count %v", src.Value.ValueSum, src.Value.Count())
	}
	meta := &format.MetricMetaValue{}
	var item tlstatshouse.MultiValue
	var mask uint32
	src.MultiValueToTL(meta, &item, 1, &mask, nil)
	wire := item.WriteTL1(nil, mask)
	var recv tlstatshouse.MultiValueBytes
	if _, err := recv.ReadTL1(wire, mask); err != nil {
		t.Fatal(err)
	}
	var dst MultiValue
	if e := dst.MergeWithTL2(rng, &recv, mask, TagUnion{}, AggregatorPercentileCompression); e != 0 {
		t.Fatalf("rejected: %d", e)
	}
	if dst.Value.Count() != 2 {
		t.Fatalf("count %v", dst.Value.Count())
	}
	if dst.Value.ValueSum != src.Value.ValueSum {
		t.Fatalf("SHVC-WITNESS: REPRODUCED value sum %v sent by the agent arrives as %v at the aggregator", src.Value.ValueSum, dst.Value.ValueSum)
	}
}
