package metadata

// Witness for property C15 (obligation metadata.(*DBV2).SaveEntity$1#assert:edit_keeps_namespace_name): namespaces
// cannot be renamed. The rules are evaluated with the caller's create flag; for a negative (built-in) id SaveEntity
// then decides by itself whether the request is a create or an edit. A request with create=true for an existing
// built-in namespace skipped the no-rename rule (it only applies to edits), passed the free-name rule, was turned into
// an edit and rewrote the row with the new name.
//
// The test binary of this package links SQLite, which the pinned tree ships as an empty file: run with the
// amalgamation supplied through -overlay (internal/sqlite/sqlite0/sqlite3.c) or CGO_LDFLAGS.

import (
	"context"
	"testing"

	"github.com/VKCOM/statshouse/internal/format"
)

func TestShvcWitnessC15(t *testing.T) {
	ctx := context.Background()
	db, _ := initD1b(t, t.TempDir(), "db", true, nil)
	const id = int64(format.BuiltinNamespaceIDDefault)
	def, err := db.SaveEntity(ctx, "default", id, 0, "{}", true, 0, format.NamespaceEvent, "")
	if err != nil {
		t.Fatalf("setup: %v", err)
	}
	_, err = db.SaveEntity(ctx, "renamed", id, def.Version, "{}", true, 0, format.NamespaceEvent, "")
	events, _ := db.JournalEvents(ctx, 0, 100)
	for _, e := range events {
		if e.Id == id && e.Name != "default" {
			t.Fatalf("SHVC-WITNESS: REPRODUCED namespace %d was renamed to %q (err=%v)", id, e.Name, err)
		}
	}
}
