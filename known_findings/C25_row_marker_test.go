package api

// Witness for property C25 (obligation api.(*requestHandler).getTableFromLODs#inv-init:4:owned): every table row
// carries a marker (time, group-by tag values, string key) that the next page request starts from and that the
// final sort compares. The marker's tag slice was reused from row to row (Tags[:0] + append), so every row of a
// pass ended up with the tag values of the last row processed; a row without a string key inherited the previous
// row's key.

import (
	"context"
	"testing"
	"time"

	"github.com/VKCOM/statshouse/internal/data_model"
	"github.com/VKCOM/statshouse/internal/format"
	"github.com/VKCOM/statshouse/internal/promql"
)

func TestShvcWitnessC25Marker(t *testing.T) {
	l, _ := time.LoadLocation("")
	// raw tags, so that tag values are rendered without the mappings storage
	meta := &format.MetricMetaValue{Tags: make([]format.MetricMetaTag, 3)}
	for i := range meta.Tags {
		meta.Tags[i].Index = int32(i)
		meta.Tags[i].RawKind = "int"
	}
	p := tableReqParams{
		req: seriesRequest{numResults: 100, by: []string{format.TagID(1)}, what: []promql.SelectorWhat{
			{Digest: promql.DigestCount},
		}},
		metricMeta:     meta,
		desiredStepMul: 1,
		location:       l,
	}
	lod := data_model.LOD{FromSec: 1, ToSec: 10, StepSec: 1, Location: l}
	mk := func(tm int64, tag1 int64) tsSelectRow {
		r := tsSelectRow{time: tm}
		r.tag[1] = tag1
		return r
	}
	load := func(ctx context.Context, h *requestHandler, pq *queryBuilder, lod data_model.LOD, avoidCache bool) ([][]tsSelectRow, error) {
		return [][]tsSelectRow{{mk(5, 10), mk(5, 20), mk(5, 30)}}, nil
	}
	h := requestHandler{Handler: &Handler{HandlerOptions: HandlerOptions{location: l}}}
	rows, _, err := h.getTableFromLODs(context.Background(), []data_model.LOD{lod}, p, load)
	if err != nil || len(rows) != 3 {
		t.Fatalf("setup: %v rows, err %v", len(rows), err)
	}
	for i := range rows {
		m := rows[i].rowRepr
		if len(m.Tags) != 1 || m.Tags[0].Index != 1 {
			t.Fatalf("setup: marker of row %d: %+v", i, m)
		}
		if m.Tags[0].Value != rows[i].row.tag[1] {
			t.Fatalf("SHVC-WITNESS: REPRODUCED marker of row %d carries tag value %d, the row's own value is %d", i, m.Tags[0].Value, rows[i].row.tag[1])
		}
	}
}
