package metajournal

// Witness for property C20 (obligations metajournal.(*MetricsStorage).ApplyEvent#assert:metric_names,
// #assert:group_names, #assert:ns_names): a replica that lags behind receives the compacted journal
// (latest version of each entity, in version order). Metric A was renamed X -> Y, then metric B took the
// freed name X, then A was edited again. The replica still has A under X; it receives B(X) and then A(Y).
// Looking up X must return B.

import (
	"testing"

	"github.com/VKCOM/statshouse/internal/data_model/gen2/tlmetadata"
	"github.com/VKCOM/statshouse/internal/format"
)

func TestShvcWitnessC20(t *testing.T) {
	check := func(kind string, typ int32, lookup func(ms *MetricsStorage, name string) (int64, bool)) {
		ms := MakeMetricsStorage(nil)
		ev := func(id int64, name string, version int64) tlmetadata.Event {
			return tlmetadata.Event{Id: id, Name: name, EventType: typ, Version: version, Data: "{}"}
		}
		ms.ApplyEvent([]tlmetadata.Event{ev(1001, "shvc_x", 1)})                          // A holds X
		ms.ApplyEvent([]tlmetadata.Event{ev(1002, "shvc_x", 3), ev(1001, "shvc_y", 4)}) // compacted: B took X (v3), A renamed to Y (latest v4)
		id, ok := lookup(ms, "shvc_x")
		if !ok || id != 1002 {
			t.Errorf("SHVC-WITNESS: REPRODUCED %s lookup by name shvc_x returned (%d,%v), want entity 1002 which currently holds that name", kind, id, ok)
		}
	}
	check("metric", format.MetricEvent, func(ms *MetricsStorage, name string) (int64, bool) {
		m := ms.GetMetaMetricByName(name)
		if m == nil {
			return 0, false
		}
		return int64(m.MetricID), true
	})
	check("group", format.MetricsGroupEvent, func(ms *MetricsStorage, name string) (int64, bool) {
		ms.mu.RLock()
		defer ms.mu.RUnlock()
		g, ok := ms.groupsByName[name]
		if !ok {
			return 0, false
		}
		return int64(g.ID), true
	})
	check("namespace", format.NamespaceEvent, func(ms *MetricsStorage, name string) (int64, bool) {
		ms.mu.RLock()
		defer ms.mu.RUnlock()
		g, ok := ms.namespaceByName[name]
		if !ok {
			return 0, false
		}
		return int64(g.ID), true
	})
}
