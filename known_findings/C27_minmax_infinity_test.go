package promql

// Witness for property C27 (obligations promql.funcMaxOverTime#inv-step:1:attained and promql.funcMinOverTime#inv-step:1:attained):
// max_over_time / min_over_time compute the maximum / minimum of the points present in the window. The running
// value started at -MaxFloat64 / +MaxFloat64, so a window whose only points are -Inf (+Inf) yielded -1.797e308
// (+1.797e308), a value that is not in the window.

import (
	"math"
	"testing"
)

func TestShvcWitnessC27(t *testing.T) {
	if got := funcMaxOverTime([]float64{math.NaN(), math.Inf(-1)}); got != math.Inf(-1) {
		t.Fatalf("SHVC-WITNESS: REPRODUCED max_over_time of a window holding only -Inf is %v", got)
	}
	if got := funcMinOverTime([]float64{math.Inf(1), math.NaN()}); got != math.Inf(1) {
		t.Fatalf("SHVC-WITNESS: REPRODUCED min_over_time of a window holding only +Inf is %v", got)
	}
}
