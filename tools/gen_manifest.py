#!/usr/bin/env python3
"""Regenerates /verif/MANIFEST.json from props/*.json (claimed) and props/not_applicable.json."""
import json, glob, os, subprocess
root = os.path.dirname(os.path.dirname(os.path.abspath(__file__)))
checks = []
claimed = []
for p in sorted(glob.glob(os.path.join(root, "props", "C*.json"))):
    pc = json.load(open(p))
    pid = pc["id"]
    exp = os.path.join(root, "contracts", "expected", pid + ".json")
    if not os.path.exists(exp) or not json.load(open(exp))["obligations"]:
        continue
    claimed.append(pid)
    checks.append({
        "property_id": pid,
        "quick_cmd": "./check %s quick" % pid,
        "thorough_cmd": "./check %s thorough" % pid,
        "evidence_file": "/verif/evidence/%s.json" % pid,
        "replay_cmd_template": "./check replay {path}",
        "engine": "shvc",
        "level_claimed": {
            "category": "proof",
            "text": pc.get("level_text", ""),
            "design_ref": "DESIGN.md section 4 " + pid,
        },
        "level_note": pc.get("level_note", ""),
        "technique": pc.get("technique", "contract-based deductive verification: weakest-precondition style VCs generated from go/ssa of the real functions, contracts as //@ comments behind build tag verif, discharged by z3/cvc5"),
    })
na = json.load(open(os.path.join(root, "props", "not_applicable.json")))
na = [x for x in na if x["property_id"] not in claimed]
try:
    commits = subprocess.check_output(["git", "-C", "/repo", "log", "--format=%H", "--grep=^verif:"], text=True).split()
except Exception:
    commits = []
manifest = {
    "version": 1,
    "setup_cmd": "cd /verif/shvc && GOFLAGS=-mod=mod GOPROXY=off go build -o /verif/bin/shvc .",
    "hooks": {
        "guard": "verif",
        "enable": "go build/test/load with -tags verif: adds comment-only contract files internal/**/zz_verif_contracts.go (//go:build verif); no declarations, no instrumentation",
        "baseline_off_cmd": "for m in $(cat /w/out/gomods.txt); do MF=$(cd /repo/$m && . /w/out/goenv.sh && gomodflag); (cd /repo/$m && go test $MF -json -vet=off -count=1 -timeout 25m ./...); done",
        "source_commits": commits,
        "add_only": True,
    },
    "engines": [{
        "name": "shvc",
        "path": "/verif/shvc",
        "serves_properties": claimed,
        "kind_free_text": "verification-condition generator over go/ssa (NaiveForm) of /repo's working tree: symbolic execution with state merging, loops cut at invariants, calls replaced by contracts, Burstall-Bornat heap; contracts are //@ comments in zz_verif_contracts.go behind build tag verif; every clause is compiled as Go into an in-memory overlay and translated by the same SSA->SMT translator; obligations discharged by a z3 5.1.0 / z3 4.8.12 / cvc5 1.0 portfolio; counterexamples replayed with go test -overlay",
    }],
    "checks": checks,
    "notes": "Claimed clauses per property are listed under Decided in DESIGN.md section 4; undecided clauses are repeated in level_note. Known findings: /verif/known_findings.json.",
    "not_applicable": na,
}
json.dump(manifest, open(os.path.join(root, "MANIFEST.json"), "w"), indent=1)
print("claimed:", claimed, "not applicable:", [x["property_id"] for x in na])
