#!/bin/bash
# runs every registered check (quick by default) and prints one line per property
tier=${1:-quick}
cd /verif
for f in props/C*.json; do
  p=$(basename $f .json)
  [ -f contracts/expected/$p.json ] || continue
  out=$(./check $p $tier 2>&1); rc=$?
  echo "$p exit=$rc $(echo "$out" | grep '^property' | tail -1)"
  echo "$out" | grep '^VIOLATION\|^UNDECIDED' | head -5
done
