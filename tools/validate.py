#!/usr/bin/env python3
import json, glob, sys, jsonschema
m = json.load(open('/verif/MANIFEST.json'))
jsonschema.validate(m, json.load(open('/root/.vp/MANIFEST.schema.json')))
bad = 0
for p in sorted(glob.glob('/verif/evidence/*.json')):
    d = json.load(open(p))
    jsonschema.validate(d, json.load(open('/root/.vp/EVIDENCE.schema.json')))
    c = d.get('coverage', {})
    # the committed evidence must be the record of a clean run on the unchanged tree
    if c.get('obligations') != c.get('discharged') or c.get('violations') or c.get('undecided'):
        print('STALE/UNCLEAN evidence:', p, c.get('obligations'), c.get('discharged'), c.get('violations'))
        bad += 1
if bad:
    sys.exit(1)
print('manifest and evidence valid')
