#!/usr/bin/env python3
import json, glob, jsonschema
jsonschema.validate(json.load(open('/verif/MANIFEST.json')), json.load(open('/root/.vp/MANIFEST.schema.json')))
for p in glob.glob('/verif/evidence/*.json'):
    jsonschema.validate(json.load(open(p)), json.load(open('/root/.vp/EVIDENCE.schema.json')))
print('manifest and evidence valid')
