#!/bin/bash
# tools/eval_seed.sh <seed-dir> <k> <demo-pkg-dir> <property-id> [check ids to run, default = property-id]
# env OUTK=<n>: store as <prop>_<n> (default k)
# 1. confirms the seeded change in a scratch worktree (demo passes without, fails with, package tests pass)
# 2. applies it to /repo, runs the registered quick checks, reverts /repo
# 3. stores /verif/seeded/<prop>_<k>/ {patch.diff, demo_test.go, note.txt, meta.json}
set -u
SEED=$1; K=$2; DEMOPKG=$3; PROP=$4; shift 4
CHECKS=${*:-$PROP}
export GOFLAGS=-mod=mod GOPROXY=off
if [ -n "$(git -C /repo status --porcelain)" ]; then echo "refusing: /repo has uncommitted changes (they would be lost by the revert step)"; exit 2; fi
OUTK=${OUTK:-$K}
OUT=/verif/seeded/${PROP}_${OUTK}
mkdir -p $OUT
cp $SEED/change$K.diff $OUT/patch.diff
cp $SEED/demo${K}_test.go $OUT/demo_test.go
cp $SEED/note$K.txt $OUT/note.txt 2>/dev/null
WT=/tmp/wt_eval_${PROP}_$K
git -C /repo worktree remove --force $WT 2>/dev/null
git -C /repo worktree add -q $WT HEAD || exit 2
TESTNAME=TestSeedDemo$K
cp $OUT/demo_test.go $WT/$DEMOPKG/zz_seed_demo_test.go
(cd $WT && go test -vet=off -count=1 -timeout 300s -run "^$TESTNAME\$" ./$DEMOPKG/ > $OUT/demo_clean.log 2>&1); CLEAN=$?
git -C $WT apply $OUT/patch.diff || { echo "patch does not apply"; git -C /repo worktree remove --force $WT; exit 2; }
(cd $WT && go test -vet=off -count=1 -timeout 300s -run "^$TESTNAME\$" ./$DEMOPKG/ > $OUT/demo_changed.log 2>&1); CHANGED=$?
rm $WT/$DEMOPKG/zz_seed_demo_test.go
PKGS=$(grep '^+++ b/' $OUT/patch.diff | sed 's|+++ b/||' | xargs -n1 dirname | sort -u | sed 's|^|./|; s|$|/|' | tr '\n' ' ')
(cd $WT && go test -vet=off -count=1 -timeout 900s $PKGS > $OUT/pkgtests_changed.log 2>&1); PKGT=$?
git -C /repo worktree remove --force $WT
echo "confirm: demo on clean exit=$CLEAN (want 0), demo with change exit=$CHANGED (want !=0), package tests with change exit=$PKGT (want 0)"
# run checks against /repo with the change applied
# the evidence files are rewritten by every run: keep the ones of the unchanged tree
EVBAK=$(mktemp -d /tmp/evbak.XXXXXX); cp /verif/evidence/*.json $EVBAK/ 2>/dev/null
git -C /repo apply $OUT/patch.diff || { echo "patch does not apply to /repo"; exit 2; }
RES=""
for c in $CHECKS; do
  /verif/check $c quick > $OUT/check_$c.log 2>&1; rc=$?
  v=$(grep -c '^VIOLATION' $OUT/check_$c.log)
  RES="$RES $c:exit=$rc:violations=$v"
  grep '^VIOLATION\|^UNDECIDED' $OUT/check_$c.log | head -5
done
git -C /repo checkout -- .
cp $EVBAK/*.json /verif/evidence/ 2>/dev/null; rm -rf $EVBAK
python3 - "$OUT" "$PROP" "$K" "$CLEAN" "$CHANGED" "$PKGT" "$RES" "$DEMOPKG" "$OUTK" <<'EOF'
import json, sys, os
out, prop, k, clean, changed, pkgt, res, demopkg, outk = sys.argv[1:10]
note = open(os.path.join(out, 'note.txt')).read() if os.path.exists(os.path.join(out, 'note.txt')) else ''
checks = {}
for r in res.split():
    c, e, v = r.split(':')
    vio = [l.strip() for l in open(os.path.join(out, 'check_%s.log' % c)) if l.startswith('VIOLATION') or l.startswith('UNDECIDED')]
    checks[c] = {"exit": int(e.split('=')[1]), "violation_lines": vio}
meta = {
  "breaks_property": prop,
  "seed": int(outk),
  "demo_package_dir": demopkg,
  "needs_to_manifest": note,
  "confirmed": {"demo_passes_on_unchanged_tree": clean == '0', "demo_fails_with_change": changed != '0', "touched_package_tests_pass_with_change": pkgt == '0'},
  "what_was_run": ["scratch worktree of /repo HEAD: go test -run TestSeedDemo%s ./%s/ before and after git apply patch.diff; go test of the touched packages with the change" % (k, demopkg),
                    "git -C /repo apply patch.diff; ./check <id> quick for: %s; git -C /repo checkout -- ." % ' '.join(checks)],
  "checks": checks,
  "detected": any(c["exit"] == 1 for c in checks.values()),
}
json.dump(meta, open(os.path.join(out, 'meta.json'), 'w'), indent=1)
print("detected:", meta["detected"], {c: v["exit"] for c, v in checks.items()})
EOF
