#!/bin/bash
# tools/eval_benign.sh <dir with editK.diff noteK.txt> <label> <check ids...>
# applies each behaviour-preserving edit to /repo, runs the given quick checks, reverts; any exit != 0 is a false alarm.
# stores /verif/benign/<label>_<k>/ {patch.diff, note.txt, result.json, check_<id>.log}
set -u
DIR=$1; LABEL=$2; shift 2
CHECKS="$*"
if [ -n "$(git -C /repo status --porcelain)" ]; then echo "refusing: /repo has uncommitted changes"; exit 2; fi
EVBAK=$(mktemp -d /tmp/evbak.XXXXXX); cp /verif/evidence/*.json $EVBAK/ 2>/dev/null
for f in $DIR/edit*.diff; do
  k=$(basename $f .diff | sed 's/edit//')
  OUT=/verif/benign/${LABEL}_$k; mkdir -p $OUT
  cp $f $OUT/patch.diff; cp $DIR/note$k.txt $OUT/note.txt 2>/dev/null
  if ! git -C /repo apply $OUT/patch.diff 2>$OUT/apply.err; then echo "$LABEL edit $k: patch does not apply"; continue; fi
  RES=""
  for c in $CHECKS; do
    /verif/check $c quick > $OUT/check_$c.log 2>&1; rc=$?
    RES="$RES $c=$rc"
  done
  git -C /repo checkout -- .
  echo "$LABEL edit $k:$RES  $(grep -h '^VIOLATION\|^UNDECIDED' $OUT/check_*.log | head -3 | cut -c1-200)"
  python3 - "$OUT" "$RES" <<'PY'
import json,sys,os,glob
out,res=sys.argv[1:3]
r={}
for kv in res.split():
    c,e=kv.split('='); r[c]={"exit":int(e),"lines":[l.strip() for l in open(os.path.join(out,'check_%s.log'%c)) if l.startswith(('VIOLATION','UNDECIDED','NOTE'))][:20]}
json.dump({"checks":r,"false_alarm":any(v["exit"]!=0 for v in r.values())},open(os.path.join(out,'result.json'),'w'),indent=1)
PY
done
cp $EVBAK/*.json /verif/evidence/ 2>/dev/null; rm -rf $EVBAK
