package main

// Memory model: per-field heap arrays indexed by object refs (Int), two-level
// element memory for slices / fixed arrays, boxes for escaping scalars, maps.

import (
	"fmt"
	"go/types"
	"strings"
)

func (e *Exec) fieldArr(styp types.Type, fidx int) (string, string) {
	si := e.tm.Struct(styp)
	f := si.fields[fidx]
	return fmt.Sprintf("H_%s_%s", e.tm.keyName(styp), sanitize(f.name)), arrSort("Int", f.sort)
}
func (e *Exec) memArr(elem types.Type) (string, string) {
	es := e.tm.Sort(elem)
	return "Mem_" + e.tm.keyName(elem), arrSort("Int", arrSort("Int", es))
}
func (e *Exec) boxArr(elem types.Type) (string, string) {
	return "Box_" + e.tm.keyName(elem), arrSort("Int", e.tm.Sort(elem))
}
func (e *Exec) mapArrs(mt *types.Map) (dom, val, ln string, ks, vs string) {
	n := e.tm.keyName(mt)
	ks, vs = e.tm.Sort(mt.Key()), e.tm.Sort(mt.Elem())
	return "MapDom_" + n, "MapVal_" + n, "MapLen_" + n, ks, vs
}

func isStructT(t types.Type) bool { _, ok := t.Underlying().(*types.Struct); return ok }
func isArrayT(t types.Type) bool  { _, ok := t.Underlying().(*types.Array); return ok }
func isSliceT(t types.Type) bool  { _, ok := t.Underlying().(*types.Slice); return ok }

// arrays whose elements are not structs live in Mem_<elem>; arrays of structs are kept by value.
func memArrayT(t types.Type) bool {
	a, ok := t.Underlying().(*types.Array)
	return ok && !isStructT(a.Elem()) && !isArrayT(a.Elem())
}

// sub-object ref: injective in (parent, field), negative.
func (e *Exec) sub(parent *Term, k int) *Term {
	c := e.c
	c.DeclareFun("sub", "(declare-fun sub (Int Int) Int)")
	c.DeclareFun("sub.par", "(declare-fun sub.par (Int) Int)")
	c.DeclareFun("sub.fld", "(declare-fun sub.fld (Int) Int)")
	kt := c.Int(int64(k))
	t := c.App("sub", "Int", parent, kt)
	if !t.bound {
		c.AddFact(t, c.And(c.Eq(c.App("sub.par", "Int", t), parent), c.Eq(c.App("sub.fld", "Int", t), kt), c.Lt(t, c.Int(0)),
			c.Eq(c.App("elem.isElem", "Bool", t), c.False())))
		c.DeclareFun("elem.isElem", "(declare-fun elem.isElem (Int) Bool)")
	}
	return t
}

// element object ref (slices of structs)
func (e *Exec) elemRef(base, idx *Term) *Term {
	c := e.c
	c.DeclareFun("elem", "(declare-fun elem (Int Int) Int)")
	c.DeclareFun("elem.par", "(declare-fun elem.par (Int) Int)")
	c.DeclareFun("elem.idx", "(declare-fun elem.idx (Int) Int)")
	c.DeclareFun("elem.isElem", "(declare-fun elem.isElem (Int) Bool)")
	t := c.App("elem", "Int", base, idx)
	if !t.bound {
		c.AddFact(t, c.And(c.Eq(c.App("elem.par", "Int", t), base), c.Eq(c.App("elem.idx", "Int", t), idx), c.Lt(t, c.Int(0)),
			c.App("elem.isElem", "Bool", t)))
	}
	return t
}

func (e *Exec) typed(t *Term, ty types.Type) *Term {
	if !t.bound && needsRange(ty) && t.kind != kLit {
		e.c.AddFact(t, e.tm.RangeFact(t, ty))
	}
	return t
}

// normalise a pointer value to a Ptr, given the pointee type
func (e *Exec) asPtr(v Val, elem types.Type) *Ptr {
	if v.P != nil {
		return v.P
	}
	if v.T == nil {
		panic("asPtr: no value")
	}
	return &Ptr{kind: pBox, obj: v.T, elemT: elem}
}

// loadObj reads a whole value of type ty stored at object ref r (struct or mem-array).
func (e *Exec) loadObj(st *State, r *Term, ty types.Type) *Term {
	c := e.c
	if isStructT(ty) {
		si := e.tm.Struct(ty)
		args := make([]*Term, len(si.fields))
		for i, f := range si.fields {
			switch {
			case isStructT(f.typ) || memArrayT(f.typ):
				args[i] = e.loadObj(st, e.sub(r, i), f.typ)
			default:
				n, s := e.fieldArr(ty, i)
				args[i] = e.typed(c.Select(e.heapGet(st, n, s), r), f.typ)
			}
		}
		return c.App(si.ctor, si.sort, args...)
	}
	if memArrayT(ty) {
		n, s := e.memArr(ty.Underlying().(*types.Array).Elem())
		return c.Select(e.heapGet(st, n, s), r)
	}
	n, s := e.boxArr(ty)
	return e.typed(c.Select(e.heapGet(st, n, s), r), ty)
}

func (e *Exec) storeObj(st *State, r *Term, ty types.Type, v *Term) {
	c := e.c
	if isStructT(ty) {
		si := e.tm.Struct(ty)
		for i, f := range si.fields {
			fv := c.Sel(f.sel, f.sort, i, si.ctor, v)
			switch {
			case isStructT(f.typ) || memArrayT(f.typ):
				e.storeObj(st, e.sub(r, i), f.typ, fv)
			default:
				n, s := e.fieldArr(ty, i)
				e.frameCheck(st, n, r)
				e.heapSet(st, n, c.Store(e.heapGet(st, n, s), r, fv))
			}
		}
		return
	}
	if memArrayT(ty) {
		n, s := e.memArr(ty.Underlying().(*types.Array).Elem())
		e.frameCheck(st, n, r)
		e.heapSet(st, n, c.Store(e.heapGet(st, n, s), r, v))
		return
	}
	n, s := e.boxArr(ty)
	e.frameCheck(st, n, r)
	e.heapSet(st, n, c.Store(e.heapGet(st, n, s), r, v))
}

// walk a path inside a by-value term
func (e *Exec) pathGet(t *Term, ty types.Type, path []pathStep) (*Term, types.Type) {
	c := e.c
	for _, s := range path {
		switch s.kind {
		case stField:
			si := e.tm.Struct(ty)
			f := si.fields[s.field]
			t = c.Sel(f.sel, f.sort, s.field, si.ctor, t)
			ty = f.typ
		case stIndex:
			t = c.Select(t, s.idx)
			ty = ty.Underlying().(*types.Array).Elem()
		}
	}
	return t, ty
}

func (e *Exec) pathSet(t *Term, ty types.Type, path []pathStep, v *Term) *Term {
	c := e.c
	if len(path) == 0 {
		return v
	}
	s := path[0]
	switch s.kind {
	case stField:
		si := e.tm.Struct(ty)
		args := make([]*Term, len(si.fields))
		for i, f := range si.fields {
			args[i] = c.Sel(f.sel, f.sort, i, si.ctor, t)
		}
		args[s.field] = e.pathSet(args[s.field], si.fields[s.field].typ, path[1:], v)
		return c.App(si.ctor, si.sort, args...)
	default:
		et := ty.Underlying().(*types.Array).Elem()
		return c.Store(t, s.idx, e.pathSet(c.Select(t, s.idx), et, path[1:], v))
	}
}

// load through a pointer value whose pointee type is ty
func (e *Exec) load(st *State, pv Val, ty types.Type) Val {
	c := e.c
	if pv.P == nil {
		if pv.T == nil {
			panic("load of non-pointer")
		}
		if isStructT(ty) || memArrayT(ty) {
			return Val{T: e.loadObj(st, pv.T, ty)}
		}
	}
	p := e.asPtr(pv, ty)
	switch p.kind {
	case pCell:
		cur, ok := st.cells[p.cell]
		if !ok {
			cur = e.tm.Zero(p.cell.typ)
		}
		t, _ := e.pathGet(cur, p.cell.typ, p.path)
		return Val{T: t}
	case pGlobal:
		cur := e.heapGet(st, "G_"+p.gname, e.tm.Sort(p.gtyp))
		if p.gNonNil && len(p.path) == 0 && !cur.bound && cur.kind != kLit {
			e.c.AddFact(cur, e.c.Gt(cur, e.c.Int(0)))
			e.assumed["package-level error variables initialised with errors.New/fmt.Errorf are non-nil and never reassigned"] = true
		}
		t, ety := e.pathGet(cur, p.gtyp, p.path)
		return Val{T: e.typed(t, ety)}
	case pField:
		n, s := e.fieldArr(p.styp, p.fidx)
		return Val{T: e.typed(c.Select(e.heapGet(st, n, s), p.obj), ty)}
	case pElem:
		n, s := e.memArr(p.elemT)
		t := c.Select(c.Select(e.heapGet(st, n, s), p.obj), p.idx)
		if len(p.path) > 0 {
			t, _ = e.pathGet(t, p.elemT, p.path)
		}
		return Val{T: e.typed(t, ty)}
	case pBox:
		return Val{T: e.loadObj(st, p.obj, ty)}
	}
	panic("load: bad pointer")
}

func (e *Exec) store(st *State, pv Val, ty types.Type, v *Term) {
	c := e.c
	if pv.P == nil && (isStructT(ty) || memArrayT(ty)) {
		e.storeObj(st, pv.T, ty, v)
		return
	}
	p := e.asPtr(pv, ty)
	switch p.kind {
	case pCell:
		cur, ok := st.cells[p.cell]
		if !ok {
			cur = e.tm.Zero(p.cell.typ)
		}
		st.cells[p.cell] = e.pathSet(cur, p.cell.typ, p.path, v)
	case pGlobal:
		srt := e.tm.Sort(p.gtyp)
		cur := e.heapGet(st, "G_"+p.gname, srt)
		e.heapSet(st, "G_"+p.gname, e.pathSet(cur, p.gtyp, p.path, v))
	case pField:
		n, s := e.fieldArr(p.styp, p.fidx)
		e.frameCheck(st, n, p.obj)
		e.heapSet(st, n, c.Store(e.heapGet(st, n, s), p.obj, v))
	case pElem:
		n, s := e.memArr(p.elemT)
		e.frameCheck(st, n, p.obj)
		m := e.heapGet(st, n, s)
		if len(p.path) > 0 {
			v = e.pathSet(c.Select(c.Select(m, p.obj), p.idx), p.elemT, p.path, v)
		}
		e.heapSet(st, n, c.Store(m, p.obj, c.Store(c.Select(m, p.obj), p.idx, v)))
	case pBox:
		e.storeObj(st, p.obj, ty, v)
	}
}

// newRef allocates a fresh object ref.
func (e *Exec) newRef(st *State, hint string) *Term {
	c := e.c
	r := c.Fresh("new_"+hint, "Int")
	e.assume(st, c.And(c.Gt(r, st.allocTop), c.Gt(r, c.Int(0))))
	st.allocTop = r
	return r
}

// allocObj allocates a zero-initialised object of type ty on the heap.
func (e *Exec) allocObj(st *State, ty types.Type, hint string) *Term {
	r := e.newRef(st, hint)
	if a, ok := ty.Underlying().(*types.Array); ok && isStructT(a.Elem()) {
		// elements are addressed as elem(r, i) in the element type's field arrays; zero-initialise the known few
		saved := e.frameOff
		e.frameOff = true
		for i := int64(0); i < a.Len() && i < 8; i++ {
			e.storeObj(st, e.elemRef(r, e.c.Int(i)), a.Elem(), e.tm.Zero(a.Elem()))
		}
		e.frameOff = saved
		return r
	}
	saved := e.frameOff
	e.frameOff = true
	e.storeObj(st, r, ty, e.tm.Zero(ty))
	e.frameOff = saved
	return r
}

func (e *Exec) fieldAddr(st *State, x Val, styp types.Type, fidx int) Val {
	ft := styp.Underlying().(*types.Struct).Field(fidx).Type()
	if x.P != nil {
		switch x.P.kind {
		case pCell, pGlobal:
			np := *x.P
			np.path = append(append([]pathStep{}, x.P.path...), pathStep{kind: stField, field: fidx, typ: styp})
			return Val{P: &np}
		}
		panic("fieldAddr on scalar pointer")
	}
	if isStructT(ft) || isArrayT(ft) {
		// embedded structs and arrays (of scalars, structs or arrays) are sub-objects
		return Val{T: e.sub(x.T, fidx)}
	}
	return Val{P: &Ptr{kind: pField, obj: x.T, styp: styp, fidx: fidx}}
}

// oldRefs: every reference contained in value t of type ty denotes an object that exists already
// (id <= allocTop); sub-object refs are negative and satisfy this trivially.
func (e *Exec) oldRefs(st *State, t *Term, ty types.Type) *Term {
	c := e.c
	if t.bound {
		return c.True()
	}
	switch u := ty.Underlying().(type) {
	case *types.Pointer, *types.Map, *types.Chan:
		return c.Le(t, st.allocTop)
	case *types.Slice:
		return c.Le(e.tm.SliceBase(t), st.allocTop)
	case *types.Struct:
		si := e.tm.Struct(ty)
		var fs []*Term
		for i, f := range si.fields {
			if hasRefs(f.typ) {
				fs = append(fs, e.oldRefs(st, c.Sel(f.sel, f.sort, i, si.ctor, t), f.typ))
			}
		}
		_ = u
		return c.And(fs...)
	}
	return c.True()
}

// fixSort adapts a sort string computed by the (mode-independent) write-set analysis to the float mode
// of the function being verified.
func (e *Exec) fixSort(s string) string {
	if !e.tm.floatReal {
		return s
	}
	s = strings.ReplaceAll(s, sortFP64, "Real")
	return strings.ReplaceAll(s, sortFP32, "Real")
}

func hasRefs(ty types.Type) bool {
	switch u := ty.Underlying().(type) {
	case *types.Pointer, *types.Map, *types.Chan, *types.Slice:
		return true
	case *types.Struct:
		for i := 0; i < u.NumFields(); i++ {
			if hasRefs(u.Field(i).Type()) {
				return true
			}
		}
	}
	return false
}
