package main

// Symbolic state: path condition (reach), local cells, heap arrays.

import (
	"fmt"
	"go/types"
	"sort"

	"golang.org/x/tools/go/ssa"
)

type Cell struct {
	id   int
	name string
	typ  types.Type
}

type stepKind int

const (
	stField stepKind = iota
	stIndex
)

type pathStep struct {
	kind  stepKind
	field int
	idx   *Term
	typ   types.Type // type of the container at this step
}

type ptrKind int

const (
	pCell ptrKind = iota
	pField
	pElem
	pBox
	pGlobal
)

type Ptr struct {
	kind  ptrKind
	cell  *Cell
	path  []pathStep
	obj   *Term      // pField: struct object ref; pBox: ref; pElem: base
	styp  types.Type // pField: struct type
	fidx  int
	idx   *Term      // pElem index
	elemT types.Type // pElem/pBox element type
	gname string     // pGlobal
	gtyp  types.Type
	gNonNil bool
}

type Closure struct {
	fn       *ssa.Function
	bindings []Val
}

type Val struct {
	T   *Term
	P   *Ptr
	Tup []Val
	Clo *Closure
}

type State struct {
	reach    *Term
	cells    map[*Cell]*Term
	heap     map[string]*Term
	heapGen  int // names not in heap resolve to the constant <name>@gen
	allocTop *Term
}

func (s *State) clone() *State {
	n := &State{reach: s.reach, heapGen: s.heapGen, allocTop: s.allocTop, cells: make(map[*Cell]*Term, len(s.cells)), heap: make(map[string]*Term, len(s.heap))}
	for k, v := range s.cells {
		n.cells[k] = v
	}
	for k, v := range s.heap {
		n.heap[k] = v
	}
	return n
}

type heapKey struct {
	name string
	sort string
}

func (e *Exec) heapGet(st *State, name, sort string) *Term {
	if t, ok := st.heap[name]; ok {
		return t
	}
	e.heapSorts[name] = sort
	cn := name
	if st.heapGen > 0 {
		cn = fmt.Sprintf("%s@%d", name, st.heapGen)
	}
	return e.c.Const(cn, sort)
}

func (e *Exec) heapSet(st *State, name string, t *Term) {
	e.heapSorts[name] = t.sort
	e.touched[name] = true
	st.heap[name] = t
}

// havocAll forgets everything about the heap.
func (e *Exec) havocAll(st *State) {
	e.genCounter++
	st.heapGen = e.genCounter
	st.heap = map[string]*Term{}
	e.bumpAlloc(st)
}

func (e *Exec) bumpAlloc(st *State) {
	n := e.c.Fresh("allocTop", "Int")
	e.assume(st, e.c.Ge(n, st.allocTop))
	st.allocTop = n
}

func (e *Exec) assume(st *State, f *Term) {
	st.reach = e.c.And(st.reach, f)
}

// mergeStates builds the state at a join from (edge-reach, state) pairs.
func (e *Exec) mergeStates(ins []*State, hint string) *State {
	if len(ins) == 1 {
		return ins[0].clone()
	}
	c := e.c
	out := &State{cells: map[*Cell]*Term{}, heap: map[string]*Term{}}
	rs := make([]*Term, len(ins))
	for i, s := range ins {
		rs[i] = s.reach
	}
	out.reach = c.Name(c.Or(rs...), "reach_"+hint)
	// heap generation: if they differ, bring every state to a common new generation lazily
	gen := ins[0].heapGen
	same := true
	for _, s := range ins {
		if s.heapGen != gen {
			same = false
		}
	}
	names := map[string]bool{}
	for _, s := range ins {
		for k := range s.heap {
			names[k] = true
		}
	}
	if !same {
		// all names ever touched may differ
		for k := range e.heapSorts {
			names[k] = true
		}
		e.genCounter++
		gen = e.genCounter
	}
	out.heapGen = gen
	keys := make([]string, 0, len(names))
	for k := range names {
		keys = append(keys, k)
	}
	sort.Strings(keys)
	for _, k := range keys {
		vals := make([]*Term, len(ins))
		for i, s := range ins {
			vals[i] = e.heapGet(s, k, e.heapSorts[k])
		}
		m := e.mergeTerms(rs, vals, k)
		out.heap[k] = m
	}
	cells := map[*Cell]bool{}
	for _, s := range ins {
		for k := range s.cells {
			cells[k] = true
		}
	}
	cl := make([]*Cell, 0, len(cells))
	for k := range cells {
		cl = append(cl, k)
	}
	sort.Slice(cl, func(i, j int) bool { return cl[i].id < cl[j].id })
	for _, k := range cl {
		var rr, vv []*Term
		for i, s := range ins {
			if v, ok := s.cells[k]; ok {
				rr = append(rr, rs[i])
				vv = append(vv, v)
			}
		}
		out.cells[k] = e.mergeTerms(rr, vv, k.name)
	}
	tops := make([]*Term, len(ins))
	for i, s := range ins {
		tops[i] = s.allocTop
	}
	out.allocTop = e.mergeTerms(rs, tops, "allocTop")
	return out
}

func (e *Exec) mergeTerms(rs, vals []*Term, hint string) *Term {
	same := true
	for _, v := range vals {
		if v != vals[0] {
			same = false
		}
	}
	if same {
		return vals[0]
	}
	r := vals[len(vals)-1]
	for i := len(vals) - 2; i >= 0; i-- {
		r = e.c.Ite(rs[i], vals[i], r)
	}
	return e.c.Name(r, hint)
}
