package main

// Symbolic state: path condition (reach), local cells, heap arrays.

import (
	"fmt"
	"go/types"
	"sort"
	"strings"

	"golang.org/x/tools/go/ssa"
)

type Cell struct {
	id   int
	name string
	typ  types.Type
}

type stepKind int

const (
	stField stepKind = iota
	stIndex
)

type pathStep struct {
	kind  stepKind
	field int
	idx   *Term
	typ   types.Type // type of the container at this step
}

type ptrKind int

const (
	pCell ptrKind = iota
	pField
	pElem
	pBox
	pGlobal
)

type Ptr struct {
	kind  ptrKind
	cell  *Cell
	path  []pathStep
	obj   *Term      // pField: struct object ref; pBox: ref; pElem: base
	styp  types.Type // pField: struct type
	fidx  int
	idx   *Term      // pElem index
	elemT types.Type // pElem/pBox element type
	gname string     // pGlobal
	gtyp  types.Type
	gNonNil bool
}

type Closure struct {
	fn       *ssa.Function
	bindings []Val
}

type Val struct {
	T   *Term
	P   *Ptr
	Tup []Val
	Clo *Closure
}

type State struct {
	reach    *Term
	cells    map[*Cell]*Term
	heap     map[string]*Term
	heapGen  int // names not in heap resolve to the constant <name>@gen
	pgen     map[string]int // package name -> generation of "everything of that package havocked"
	lazyParents []*State    // join of states whose heap generations differ: unknown names resolve through them
	lazyReach   []*Term
	allocTop *Term
}

func (s *State) clone() *State {
	n := &State{reach: s.reach, heapGen: s.heapGen, allocTop: s.allocTop, cells: make(map[*Cell]*Term, len(s.cells)), heap: make(map[string]*Term, len(s.heap))}
	n.lazyParents, n.lazyReach = s.lazyParents, s.lazyReach
	if len(s.pgen) > 0 {
		n.pgen = make(map[string]int, len(s.pgen))
		for k, v := range s.pgen {
			n.pgen[k] = v
		}
	}
	for k, v := range s.cells {
		n.cells[k] = v
	}
	for k, v := range s.heap {
		n.heap[k] = v
	}
	return n
}

type heapKey struct {
	name string
	sort string
}

func (e *Exec) heapGet(st *State, name, sort string) *Term {
	t := e.heapGet0(st, name, sort)
	if sort == "(Array Int Slice)" {
		e.noteHeapTop(t, st)
	}
	return t
}

// noteHeapTop: every version of a heap array that is part of the heap of state st existed when st.allocTop was the
// allocation mark or earlier, so the references stored in it are at most st.allocTop (the invariant that code loads
// already assume, see unop). Recorded per version so that specification reads under a binder, which carry no facts,
// get the bound once their witnesses are named (refFacts).
func (e *Exec) noteHeapTop(a *Term, st *State) {
	if st.allocTop == nil {
		return
	}
	if e.verTops == nil {
		e.verTops = map[int][]*Term{}
		e.verTopSeen = map[[2]int]bool{}
	}
	k := [2]int{a.id, st.allocTop.id}
	if e.verTopSeen[k] {
		return
	}
	e.verTopSeen[k] = true
	for _, b := range heapBases(a) {
		dup := false
		for _, t := range e.verTops[b.id] {
			if t == st.allocTop {
				dup = true
			}
		}
		if !dup && len(e.verTops[b.id]) < 6 {
			e.verTops[b.id] = append(e.verTops[b.id], st.allocTop)
		}
	}
}

// heapBases: the array constants an array term is built from (through stores, joins and named definitions).
func heapBases(a *Term) []*Term {
	var out []*Term
	seen := map[int]bool{}
	var walk func(t *Term, depth int)
	walk = func(t *Term, depth int) {
		if seen[t.id] || depth > 64 {
			return
		}
		seen[t.id] = true
		switch {
		case t.kind == kDef && t.def != nil:
			walk(t.def, depth+1)
		case t.kind == kApp && t.op == "store":
			walk(t.args[0], depth+1)
		case t.kind == kApp && t.op == "ite":
			walk(t.args[1], depth+1)
			walk(t.args[2], depth+1)
		case t.kind == kVar:
			out = append(out, t)
		}
	}
	walk(a, 0)
	return out
}

func (e *Exec) heapGet0(st *State, name, sort string) *Term {
	if t, ok := st.heap[name]; ok {
		return t
	}
	e.heapSorts[name] = sort
	cn := name
	gen := st.heapGen
	pg := 0
	for p, g := range st.pgen {
		if g > pg && arrayOfPkg(name, p) {
			pg = g
		}
	}
	if len(st.lazyParents) > 0 && pg == 0 {
		// the state is a join of states with different heap generations: resolve through the parents
		vals := make([]*Term, len(st.lazyParents))
		for i, ps := range st.lazyParents {
			vals[i] = e.heapGet0(ps, name, sort)
		}
		t := e.mergeTerms(st.lazyReach, vals, name)
		st.heap[name] = t
		return t
	}
	if pg > gen {
		gen = pg
	}
	if gen > 0 {
		cn = fmt.Sprintf("%s@%d", name, gen)
	}
	return e.c.Const(cn, sort)
}

// arrayOfPkg: does the heap array hold data of a type declared in package pkg?
func arrayOfPkg(name, pkg string) bool {
	i := strings.Index(name, "_")
	return i >= 0 && strings.Contains(name[i:], pkg+".")
}

// havocPkg forgets everything stored in objects of types of the given package.
func (e *Exec) havocPkg(st *State, pkg string) {
	e.genCounter++
	if st.pgen == nil {
		st.pgen = map[string]int{}
	}
	st.pgen[pkg] = e.genCounter
	for n := range st.heap {
		if arrayOfPkg(n, pkg) {
			delete(st.heap, n)
		}
	}
	e.bumpAlloc(st)
}

func samePgen(a, b map[string]int) bool {
	if len(a) != len(b) {
		return false
	}
	for k, v := range a {
		if b[k] != v {
			return false
		}
	}
	return true
}

func (e *Exec) heapSet(st *State, name string, t *Term) {
	e.heapSorts[name] = t.sort
	e.touched[name] = true
	st.heap[name] = t
}

// havocAll forgets everything about the heap.
func (e *Exec) havocAll(st *State) {
	e.genCounter++
	st.heapGen = e.genCounter
	st.heap = map[string]*Term{}
	st.pgen = nil
	st.lazyParents, st.lazyReach = nil, nil
	e.bumpAlloc(st)
}

func (e *Exec) bumpAlloc(st *State) {
	n := e.c.Fresh("allocTop", "Int")
	e.assume(st, e.c.Ge(n, st.allocTop))
	st.allocTop = n
}

func (e *Exec) assume(st *State, f *Term) {
	st.reach = e.c.And(st.reach, f)
}

// mergeStates builds the state at a join from (edge-reach, state) pairs.
func (e *Exec) mergeStates(ins []*State, hint string) *State {
	if len(ins) == 1 {
		return ins[0].clone()
	}
	c := e.c
	out := &State{cells: map[*Cell]*Term{}, heap: map[string]*Term{}}
	rs := make([]*Term, len(ins))
	for i, s := range ins {
		rs[i] = s.reach
	}
	out.reach = c.Name(c.Or(rs...), "reach_"+hint)
	// heap generation: if they differ, bring every state to a common new generation lazily
	gen := ins[0].heapGen
	same := true
	for _, s := range ins {
		if s.heapGen != gen || !samePgen(s.pgen, ins[0].pgen) {
			same = false
		}
	}
	if same && len(ins[0].pgen) > 0 {
		out.pgen = map[string]int{}
		for k, v := range ins[0].pgen {
			out.pgen[k] = v
		}
	}
	names := map[string]bool{}
	for _, s := range ins {
		for k := range s.heap {
			names[k] = true
		}
	}
	if !same {
		// names first read later are resolved lazily through the incoming states
		out.lazyParents = ins
		out.lazyReach = rs
		gen = 0
	} else if len(ins[0].lazyParents) > 0 {
		out.lazyParents, out.lazyReach = ins[0].lazyParents, ins[0].lazyReach
		for _, s := range ins {
			if len(s.lazyParents) != len(ins[0].lazyParents) || (len(s.lazyParents) > 0 && s.lazyParents[0] != ins[0].lazyParents[0]) {
				out.lazyParents, out.lazyReach = ins, rs
				out.pgen = nil
			}
		}
	}
	out.heapGen = gen
	keys := make([]string, 0, len(names))
	for k := range names {
		keys = append(keys, k)
	}
	sort.Strings(keys)
	for _, k := range keys {
		vals := make([]*Term, len(ins))
		for i, s := range ins {
			vals[i] = e.heapGet(s, k, e.heapSorts[k])
		}
		m := e.mergeTerms(rs, vals, k)
		out.heap[k] = m
	}
	cells := map[*Cell]bool{}
	for _, s := range ins {
		for k := range s.cells {
			cells[k] = true
		}
	}
	cl := make([]*Cell, 0, len(cells))
	for k := range cells {
		cl = append(cl, k)
	}
	sort.Slice(cl, func(i, j int) bool { return cl[i].id < cl[j].id })
	for _, k := range cl {
		var rr, vv []*Term
		for i, s := range ins {
			if v, ok := s.cells[k]; ok {
				rr = append(rr, rs[i])
				vv = append(vv, v)
			}
		}
		out.cells[k] = e.mergeTerms(rr, vv, k.name)
	}
	tops := make([]*Term, len(ins))
	for i, s := range ins {
		tops[i] = s.allocTop
	}
	out.allocTop = e.mergeTerms(rs, tops, "allocTop")
	return out
}

func (e *Exec) mergeTerms(rs, vals []*Term, hint string) *Term {
	same := true
	for _, v := range vals {
		if v != vals[0] {
			same = false
		}
	}
	if same {
		return vals[0]
	}
	r := vals[len(vals)-1]
	for i := len(vals) - 2; i >= 0; i-- {
		r = e.c.Ite(rs[i], vals[i], r)
	}
	return e.c.Name(r, hint)
}
