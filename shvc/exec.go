package main

// Symbolic execution of go/ssa functions (NaiveForm) with state merging: the
// acyclic part of the CFG is executed block by block in topological order,
// loops are cut at their heads with invariants. Obligations are collected as
// (reach, condition) pairs.

import (
	"os"
	"fmt"
	"go/token"
	"go/types"
	"sort"
	"strings"

	"golang.org/x/tools/go/ssa"
)

type Obligation struct {
	Name   string
	Kind   string
	Reach  *Term
	Cond   *Term
	Pos    token.Pos
	Cover  bool // must be SAT
	Detail string
}

type Exec struct {
	eng        *Engine
	c          *TermCtx
	tm         *TypeMap
	heapSorts  map[string]string
	touched    map[string]bool
	genCounter int
	cellN      int
	obls       []*Obligation
	oblNames   map[string]int
	pure       int
	depth      int
	notes      map[string]int
	assumed    map[string]bool
	top        *FuncSpec
	safe       bool
	frameLocs  []Loc
	frameOn    bool
	frameOff   bool
	entryTop   *Term
	inputs     []inputVar
	callStack  []string
	oblPrefix  string
	wholeHavoc map[string]bool
	noPrune     int
	bits        map[int]*bitInfo
	witness     []*Term
	noWitness   int
	caseHint    *caseHint
	knownWidth  map[int]int
	collectLocs *[]Loc
	freshN      int
	absLoops    int // >0 while a sort comparison is evaluated: its loops are cut without invariant (what follows a loop is arbitrary)
	verTops     map[int][]*Term // heap array version -> allocation marks of states it was part of
	verTopSeen  map[[2]int]bool
	loopFrames  []*loopFrameRec
	inputDefs   []*Term // definitions of the replay constants (added to failing-obligation queries only)
	unfolding   map[*ssa.Function]int
	unfolded    map[int]bool
	extra       map[*Cell]Val
}

type inputVar struct {
	Name string
	Typ  types.Type
	T    *Term
	// model extraction for replay: the first elements of a slice-of-scalars / the first bytes of a string input
	Elems  []*Term // fresh constants equal to the elements (in the entry state)
	LenVar *Term   // for strings: constant equal to the length
	Pointee *Term  // for *struct parameters: the pointed-to struct rebuilt from fresh constants (scalar leaves only)
}

const replayElems = 32

type Loc struct {
	arr string
	ref *Term
}

type Frame struct {
	fn       *ssa.Function
	vals     map[ssa.Value]Val
	allocs   map[*ssa.Alloc]Val
	oldVals  map[ssa.Value]Val
	oldEnd   *State
	bindings []Val
	defers   []*ssa.Defer
	entry    *State
	params   []Val
	spec     *FuncSpec
	loops    map[*ssa.BasicBlock]*loopInfo
	escapes  map[*ssa.Alloc]bool
	snaps       map[string]*State
	deferCell   map[*ssa.Defer]*Cell // flags of defers that not every return passes
	callRes     map[string]Val       // result_of(k, f): by call position
	callArgs    map[string][]Val     // arg_of(k, f, i)
	callAt      map[string]callSite  // where and under which path condition that call ran
	cur         *ssa.BasicBlock      // block being executed (nil after the body: postconditions)
	oldOverride *State
}

type loopInfo struct {
	head     *ssa.BasicBlock
	ordinal  int
	body     map[*ssa.BasicBlock]bool
	backs    map[*ssa.BasicBlock]bool // back-edge sources
	dec0     *Term
	headSt   *State
	phiFresh map[*ssa.Phi]*Term
}

type caseHint struct {
	x    *Term
	vals []*Term
}

type unsupported struct{ msg string }

func (e *Exec) fail(format string, a ...interface{}) {
	panic(unsupported{fmt.Sprintf(format, a...)})
}

func (e *Exec) note(s string) { e.notes[s]++ }

func (e *Exec) oblige(st *State, kind, name string, cond *Term, pos token.Pos) {
	if e.pure > 0 {
		return
	}
	full := e.oblPrefix + name
	e.oblNames[full]++
	if n := e.oblNames[full]; n > 1 {
		full = fmt.Sprintf("%s#%d", full, n)
	}
	if h := e.caseHint; h != nil && !isTrue(cond) {
		// proof hint: split the obligation by the value of a term; coverage of the cases is an obligation too
		e.caseHint = nil
		var alts []*Term
		for _, v := range h.vals {
			eq := e.c.Eq(h.x, v)
			alts = append(alts, eq)
			// substitute equals for equals so that arithmetic with the literal folds; keep x == v itself
			memo := map[int]*Term{}
			r2 := e.c.And(e.c.Subst(st.reach, h.x, v, memo), eq)
			c2 := e.c.Subst(cond, h.x, v, memo)
			e.obls = append(e.obls, &Obligation{Name: fmt.Sprintf("%s[%s]", full, e.c.Show(v)), Kind: kind, Reach: r2, Cond: c2, Pos: pos})
		}
		e.obls = append(e.obls, &Obligation{Name: full + "[cases-cover]", Kind: kind, Reach: st.reach, Cond: e.c.Or(alts...), Pos: pos})
	} else if !isTrue(cond) {
		e.obls = append(e.obls, &Obligation{Name: full, Kind: kind, Reach: st.reach, Cond: cond, Pos: pos})
	} else {
		e.obls = append(e.obls, &Obligation{Name: full, Kind: kind, Reach: st.reach, Cond: cond, Pos: pos, Detail: "trivial"})
	}
	e.assume(st, cond)
}

// check is an implicit run-time panic condition: an obligation in safe mode,
// otherwise assumed (partial correctness: panicking executions do not return).
func (e *Exec) check(st *State, kind string, instr ssa.Instruction, cond *Term) {
	if e.pure > 0 {
		return
	}
	if isTrue(cond) {
		return
	}
	if e.safe {
		e.oblige(st, kind, kind+":"+e.eng.srcText(instr), cond, instr.Pos())
		return
	}
	e.assume(st, cond)
}

// varargElems: the values stored into the array go/ssa allocates for the variadic tail of a call.
func varargElems(v ssa.Value) ([]ssa.Value, bool) {
	sl, ok := v.(*ssa.Slice)
	if !ok {
		return nil, false
	}
	arr, ok := sl.X.(*ssa.Alloc)
	if !ok || arr.Comment != "varargs" || arr.Referrers() == nil {
		return nil, false
	}
	byIdx := map[int64]ssa.Value{}
	for _, r := range *arr.Referrers() {
		ia, ok := r.(*ssa.IndexAddr)
		if !ok {
			continue
		}
		k, ok := ia.Index.(*ssa.Const)
		if !ok || ia.Referrers() == nil {
			return nil, false
		}
		for _, r2 := range *ia.Referrers() {
			if st, ok := r2.(*ssa.Store); ok && st.Addr == ssa.Value(ia) {
				byIdx[k.Int64()] = st.Val
			}
		}
	}
	var out []ssa.Value
	for i := int64(0); i < int64(len(byIdx)); i++ {
		el, ok := byIdx[i]
		if !ok {
			return nil, false
		}
		out = append(out, el)
	}
	return out, len(out) > 0
}

// ---------- running a function ----------

func (e *Exec) newFrame(fn *ssa.Function) *Frame {
	return &Frame{fn: fn, vals: map[ssa.Value]Val{}, allocs: map[*ssa.Alloc]Val{}, loops: map[*ssa.BasicBlock]*loopInfo{}}
}

// callSite: the path condition under which a call named by arg_of / result_of was executed, and its block.
type callSite struct {
	reach *Term
	block *ssa.BasicBlock
}

// onThisPath: the value a clause gets for arg_of / result_of. The recorded value belongs to the paths on which the call
// ran; where the clause sits on a path that bypassed the call (not dominated by it), the value is arbitrary there, so a
// clause cannot be satisfied by what another branch did.
func (e *Exec) onThisPath(fr *Frame, key string, v Val) Val {
	cs, ok := fr.callAt[key]
	if !ok || v.T == nil || cs.reach == nil || isTrue(cs.reach) {
		return v
	}
	if fr.cur != nil && cs.block != nil && cs.block.Dominates(fr.cur) {
		return v
	}
	e.freshN++
	other := e.c.Fresh(fmt.Sprintf("notcalled.%d", e.freshN), v.T.sort)
	return Val{T: e.c.Ite(cs.reach, v.T, other)}
}

type retPoint struct {
	st   *State
	vals []Val
}

// run executes fn from st; returns the merged state at return and results.
func (e *Exec) run(fr *Frame, args []Val, st *State) (*State, []Val) {
	fn := fr.fn
	if len(fn.Blocks) == 0 {
		e.fail("function %s has no body", fn)
	}
	e.depth++
	defer func() { e.depth-- }()
	if e.depth > 24 {
		e.fail("inline depth exceeded at %s", fn)
	}
	fr.params = args
	for i, p := range fn.Params {
		if i < len(args) {
			fr.vals[p] = args[i]
		}
	}
	for i, fv := range fn.FreeVars {
		if i < len(fr.bindings) {
			fr.vals[fv] = fr.bindings[i]
		}
	}
	fr.entry = st.clone()
	order, backEdge := blockOrder(fn)
	e.findLoops(fr, order, backEdge)
	fr.escapes = e.eng.escapeInfo(fn)
	for _, b := range fn.Blocks {
		for _, ins := range b.Instrs {
			if d, ok := ins.(*ssa.Defer); ok && b != fn.Blocks[0] && !dominatesReturns(b, fn) {
				if fr.deferCell == nil {
					fr.deferCell = map[*ssa.Defer]*Cell{}
				}
				e.cellN++
				cell := &Cell{id: e.cellN, name: "defer.armed", typ: types.Typ[types.Bool]}
				fr.deferCell[d] = cell
				st.cells[cell] = e.c.False()
			}
		}
	}

	out := map[*ssa.BasicBlock]*State{}
	var rets []retPoint
	for _, b := range order {
		var ins []*State
		var inPreds []int
		for pi, p := range b.Preds {
			if backEdge[edge{p, b}] {
				continue
			}
			ps := out[p]
			if ps == nil {
				continue
			}
			es := e.edgeState(fr, p, b, ps)
			if es == nil || (isFalse(es.reach) && e.noPrune == 0) {
				continue
			}
			ins = append(ins, es)
			inPreds = append(inPreds, pi)
		}
		var cur *State
		if b.Index == 0 {
			cur = st
		} else {
			if len(ins) == 0 {
				continue
			}
			for i := range ins {
				ins[i].reach = e.c.Name(ins[i].reach, fmt.Sprintf("edge_%d_%d", b.Preds[inPreds[i]].Index, b.Index))
			}
			cur = e.mergeStates(ins, fmt.Sprintf("b%d", b.Index))
			// phis
			for _, ins2 := range b.Instrs {
				phi, ok := ins2.(*ssa.Phi)
				if !ok {
					break
				}
				var rr, vv []*Term
				for i, pi := range inPreds {
					v := e.operand(fr, phi.Edges[pi])
					if v.T == nil {
						e.fail("phi of non-term value in %s", fn)
					}
					rr = append(rr, ins[i].reach)
					vv = append(vv, v.T)
				}
				fr.vals[phi] = Val{T: e.mergeTerms(rr, vv, "phi")}
			}
		}
		if li := fr.loops[b]; li != nil {
			cur = e.enterLoop(fr, li, cur)
		}
		fr.cur = b
		terminated := false
		for _, ins2 := range b.Instrs {
			if _, ok := ins2.(*ssa.Phi); ok {
				continue
			}
			switch x := ins2.(type) {
			case *ssa.Return:
				e.siteAsserts(fr, cur, x.Pos(), 0)
				var vs []Val
				for _, r := range x.Results {
					vs = append(vs, e.operand(fr, r))
				}
				rets = append(rets, retPoint{cur, vs})
				terminated = true
			case *ssa.Panic:
				if e.safe && e.pure == 0 {
					e.oblige(cur, "safe-panic", "safe-panic:"+e.eng.srcText(x), e.c.False(), x.Pos())
				}
				terminated = true
			case *ssa.If, *ssa.Jump:
				// handled by edgeState
			default:
				e.rangeSnapshots(fr, cur, ins2)
				e.instr(fr, cur, ins2)
			}
			if isFalse(cur.reach) && e.noPrune == 0 {
				if os.Getenv("SHVC_DEBUG") != "" && !terminated && e.pure == 0 {
					fmt.Fprintf(os.Stderr, "path dies at %s: %s\n", e.eng.fset.Position(ins2.Pos()), ins2)
				}
				terminated = true
			}
			if terminated {
				break
			}
		}
		if !terminated {
			out[b] = cur
			// back edges leaving this block
			for _, s := range b.Succs {
				if backEdge[edge{b, s}] {
					es := e.edgeState(fr, b, s, cur)
					if es != nil && !isFalse(es.reach) {
						e.backEdge(fr, fr.loops[s], b, es)
					}
				}
			}
		}
	}
	if len(rets) == 0 {
		dead := st.clone()
		dead.reach = e.c.False()
		res := make([]Val, fn.Signature.Results().Len())
		for i := range res {
			res[i] = Val{T: e.tm.Zero(fn.Signature.Results().At(i).Type())}
		}
		return dead, res
	}
	sts := make([]*State, len(rets))
	rs := make([]*Term, len(rets))
	for i, r := range rets {
		r.st.reach = e.c.Name(r.st.reach, "ret")
		sts[i] = r.st
		rs[i] = r.st.reach
	}
	merged := e.mergeStates(sts, "exit")
	nres := len(rets[0].vals)
	res := make([]Val, nres)
	for j := 0; j < nres; j++ {
		if rets[0].vals[j].T == nil {
			res[j] = rets[0].vals[j]
			if len(rets) > 1 {
				// non-term results (closures, static pointers) must agree
				for _, r := range rets[1:] {
					if r.vals[j].P != rets[0].vals[j].P && r.vals[j].Clo != rets[0].vals[j].Clo {
						e.fail("cannot merge non-term results of %s", fn)
					}
				}
			}
			continue
		}
		vv := make([]*Term, len(rets))
		for i, r := range rets {
			if r.vals[j].T == nil {
				e.fail("cannot merge mixed results of %s", fn)
			}
			vv[i] = r.vals[j].T
		}
		res[j] = Val{T: e.mergeTerms(rs, vv, "result")}
	}
	return merged, res
}

type edge struct{ from, to *ssa.BasicBlock }

// blockOrder returns a topological order of the CFG without back edges.
func blockOrder(fn *ssa.Function) ([]*ssa.BasicBlock, map[edge]bool) {
	back := map[edge]bool{}
	state := map[*ssa.BasicBlock]int{}
	var post []*ssa.BasicBlock
	var dfs func(b *ssa.BasicBlock)
	dfs = func(b *ssa.BasicBlock) {
		state[b] = 1
		for _, s := range b.Succs {
			switch state[s] {
			case 0:
				dfs(s)
			case 1:
				back[edge{b, s}] = true
			}
		}
		state[b] = 2
		post = append(post, b)
	}
	dfs(fn.Blocks[0])
	for i, j := 0, len(post)-1; i < j; i, j = i+1, j-1 {
		post[i], post[j] = post[j], post[i]
	}
	return post, back
}

func (e *Exec) findLoops(fr *Frame, order []*ssa.BasicBlock, back map[edge]bool) {
	heads := map[*ssa.BasicBlock]bool{}
	for ed := range back {
		heads[ed.to] = true
	}
	var hs []*ssa.BasicBlock
	for h := range heads {
		hs = append(hs, h)
	}
	sort.Slice(hs, func(i, j int) bool { return hs[i].Index < hs[j].Index })
	for i, h := range hs {
		li := &loopInfo{head: h, ordinal: i + 1, body: map[*ssa.BasicBlock]bool{h: true}, backs: map[*ssa.BasicBlock]bool{}}
		var work []*ssa.BasicBlock
		for ed := range back {
			if ed.to == h {
				li.backs[ed.from] = true
				if !li.body[ed.from] {
					li.body[ed.from] = true
					work = append(work, ed.from)
				}
			}
		}
		for len(work) > 0 {
			b := work[len(work)-1]
			work = work[:len(work)-1]
			for _, p := range b.Preds {
				if !li.body[p] {
					li.body[p] = true
					work = append(work, p)
				}
			}
		}
		fr.loops[h] = li
	}
}

// edgeState: state along CFG edge p->b.
func (e *Exec) edgeState(fr *Frame, p, b *ssa.BasicBlock, ps *State) *State {
	last := p.Instrs[len(p.Instrs)-1]
	switch x := last.(type) {
	case *ssa.If:
		cond := e.operand(fr, x.Cond).T
		s := ps.clone()
		if p.Succs[0] == b && p.Succs[1] == b {
			return s
		}
		if p.Succs[0] == b {
			e.assume(s, cond)
		} else {
			e.assume(s, e.c.Not(cond))
		}
		return s
	case *ssa.Jump:
		return ps.clone()
	}
	return nil
}

// ---------- loops ----------

// clauseInputsReady: every result_of / arg_of the clause mentions refers to a call already executed.
func (e *Exec) clauseInputsReady(fr *Frame, cl Clause) bool {
	for _, p := range cl.Params {
		key := fmt.Sprintf("%s:%d", p.File, p.Off)
		switch p.Kind {
		case pkCallRes:
			if _, ok := fr.callRes[key]; !ok {
				return false
			}
		case pkCallArg:
			if vs, ok := fr.callArgs[key]; !ok || p.Index >= len(vs) {
				return false
			}
		}
	}
	return true
}

// evalInv evaluates a loop invariant; one written "since call K f" reads old() and before() at that snapshot.
func (e *Exec) evalInv(fr *Frame, cl Clause, st *State) *Term {
	if cl.SinceCallee != "" {
		snap := fr.snaps[fmt.Sprintf("%s:%d", cl.SinceFile, cl.SinceOff)]
		if snap == nil {
			e.fail("invariant %s: the 'since' call was not executed before the loop", cl.Label)
		}
		fr.oldOverride = snap
		defer func() { fr.oldOverride = nil }()
	}
	return e.evalClauseAt(fr, cl, st, nil)
}

func (fs *FuncSpec) hasSinceInvariant() bool {
	for _, ls := range fs.Loops {
		for _, cl := range ls.Invariants {
			if cl.SinceCallee != "" {
				return true
			}
		}
	}
	return false
}

func (e *Exec) loopSpec(fr *Frame, li *loopInfo) *LoopSpec {
	if fr.spec == nil {
		return nil
	}
	return fr.spec.Loops[li.ordinal]
}

func (e *Exec) enterLoop(fr *Frame, li *loopInfo, pre *State) *State {
	c := e.c
	ls := e.loopSpec(fr, li)
	if e.pure > 0 && e.absLoops == 0 {
		e.fail("loop in pure/spec function %s", fr.fn)
	}
	if ls == nil && fr.spec == nil && e.absLoops == 0 {
		e.fail("loop in inlined function %s (needs a contract)", fr.fn)
	}
	// establish invariants on entry
	if ls != nil {
		for _, cl := range ls.Invariants {
			t := e.evalInv(fr, cl, pre)
			e.oblige(pre, "inv-init", fmt.Sprintf("inv-init:%d:%s", li.ordinal, cl.Label), t, cl.Pos)
		}
	}
	st := pre.clone()
	mod := e.eng.loopMods(fr.fn, li, fr.escapes)
	if mod.all {
		e.havocAll(st)
	} else {
		names := make([]string, 0, len(mod.heap))
		for n := range mod.heap {
			names = append(names, n)
		}
		sort.Strings(names)
		for _, n := range names {
			srt, ok := e.heapSorts[n]
			if !ok {
				// never read so far: reading later yields the initial constant; make it fresh by generation trick
				srt = mod.heap[n]
				if srt == "" {
					continue
				}
			}
			e.heapSet(st, n, c.Fresh(n+"@loop", e.fixSort(srt)))
			e.loopFrame(fr, st, pre, n, e.fixSort(srt))
		}
		if mod.allocs {
			e.bumpAlloc(st)
		}
		for pk := range mod.pkgs {
			e.havocPkg(st, pk)
		}
	}
	for a := range mod.cells {
		av, ok := fr.allocs[a]
		if !ok || av.P == nil || av.P.kind != pCell {
			continue
		}
		var facts []*Term
		t := e.tm.FreshTyped(av.P.cell.name+"@loop", av.P.cell.typ, &facts)
		st.cells[av.P.cell] = t
		e.assume(st, c.And(facts...))
		// whatever the local refers to was allocated before this point
		e.assume(st, e.oldRefs(st, t, av.P.cell.typ))
		if a.Comment == "rangeindex" {
			// the hidden index of a range loop starts at -1 and only grows
			e.assume(st, c.Ge(t, c.Int(-1)))
		}
	}
	li.phiFresh = map[*ssa.Phi]*Term{}
	for _, ins := range li.head.Instrs {
		phi, ok := ins.(*ssa.Phi)
		if !ok {
			break
		}
		var facts []*Term
		t := e.tm.FreshTyped("phi@loop", phi.Type(), &facts)
		e.assume(st, c.And(facts...))
		// automatic invariant for range-index loops: -1 <= k, and k equals entry value or grew
		if phi.Comment == "rangeindex" {
			e.assume(st, c.Ge(t, c.Int(-1)))
		}
		fr.vals[phi] = Val{T: t}
		li.phiFresh[phi] = t
	}
	if ls != nil {
		for _, cl := range ls.Invariants {
			e.assume(st, e.evalInv(fr, cl, st))
		}
		if ls.Decreases != nil {
			li.dec0 = e.evalClauseAt(fr, *ls.Decreases, st, nil)
		}
	}
	// quantified preconditions speak about the entry state and stay true: restate them here so that they get
	// instances at this loop's indices
	if fr.spec != nil && fr.spec == e.top && e.pure == 0 && fr.entry != nil {
		for _, cl := range fr.spec.Requires {
			if !strings.Contains(cl.Text, "forall") {
				continue
			}
			savedW := e.witness
			e.witness = e.witnessFor(fr, st)
			t := e.evalClauseCall(cl, fr.params, nil, fr.entry, fr.entry)
			e.witness = savedW
			e.assume(st, t)
		}
	}
	st.reach = c.Name(st.reach, fmt.Sprintf("loop%d", li.ordinal))
	li.headSt = st.clone()
	return st
}

type loopFrameRec struct {
	q      *Term // the quantified fact as placed in the path condition
	bv     *Term
	body   *Term
	newArr *Term // the array symbol introduced at the loop head
}

// instantiateLoopFrames replaces the quantified loop-frame facts in the given terms by their instances at every
// ground index read from the havocked arrays (through stores, joins and named definitions). Fewer assumptions than
// the quantified facts, so nothing is proved that they would not prove.
func (e *Exec) instantiateLoopFrames(ts []*Term) ([]*Term, []*Term) {
	// witnesses named by Polarize put element / sub-object refs outside their binders: they need their facts too
	rs := map[int]bool{}
	for _, t := range ts {
		e.refFacts(t, rs)
	}
	if len(e.loopFrames) == 0 {
		return ts, nil
	}
	c := e.c
	out := make([]*Term, len(ts))
	for i, t := range ts {
		for _, lf := range e.loopFrames {
			t = c.Subst(t, lf.q, c.True(), map[int]*Term{})
		}
		out[i] = t
	}
	byArr := map[int]*loopFrameRec{}
	for _, lf := range e.loopFrames {
		byArr[lf.newArr.id] = lf
	}
	seen := map[int]bool{}
	done := map[[2]int]bool{}
	var insts []*Term
	var bases func(a *Term, acc map[int]bool, depth int)
	bases = func(a *Term, acc map[int]bool, depth int) {
		if depth > 64 || acc[-a.id] {
			return
		}
		acc[-a.id] = true
		switch {
		case a.kind == kDef && a.def != nil:
			bases(a.def, acc, depth+1)
		case a.kind == kApp && a.op == "store":
			bases(a.args[0], acc, depth+1)
		case a.kind == kApp && a.op == "ite":
			bases(a.args[1], acc, depth+1)
			bases(a.args[2], acc, depth+1)
		default:
			acc[a.id] = true
		}
	}
	var work []*Term
	work = append(work, out...)
	var visit func(t *Term)
	visit = func(t *Term) {
		if seen[t.id] {
			return
		}
		seen[t.id] = true
		if t.kind == kDef && t.def != nil {
			visit(t.def)
		}
		for _, a := range t.args {
			visit(a)
		}
		if t.kind == kApp && t.op == "select" && len(t.args) == 2 && !t.args[1].bound {
			acc := map[int]bool{}
			bases(t.args[0], acc, 0)
			for id := range acc {
				lf := byArr[id]
				if id <= 0 || lf == nil || done[[2]int{id, t.args[1].id}] {
					continue
				}
				done[[2]int{id, t.args[1].id}] = true
				inst := c.Subst(lf.body, lf.bv, t.args[1], map[int]*Term{})
				e.refFacts(inst, map[int]bool{})
				insts = append(insts, inst)
				work = append(work, inst)
			}
		}
	}
	for len(work) > 0 && len(insts) < 4000 {
		t := work[len(work)-1]
		work = work[:len(work)-1]
		visit(t)
	}
	return out, insts
}

// refFacts: sub-object and element refs built under a binder carry no facts; once instantiated they need them.
func (e *Exec) refFacts(t *Term, seen map[int]bool) {
	if seen[t.id] || t.bound {
		return
	}
	seen[t.id] = true
	if t.kind == kDef && t.def != nil {
		e.refFacts(t.def, seen)
	}
	for _, a := range t.args {
		e.refFacts(a, seen)
	}
	if t.kind == kApp && t.op == "select" && len(t.args) == 2 && t.sort == "Slice" && len(e.c.facts[t.id]) == 0 && e.verTops != nil {
		// a slice header read from the heap refers to memory allocated before the versions it is read from existed
		c := e.c
		var fs []*Term
		for _, b := range heapBases(t.args[0]) {
			for _, top := range e.verTops[b.id] {
				fs = append(fs, c.Le(e.tm.SliceBase(c.Select(b, t.args[1])), top))
			}
		}
		if len(fs) > 0 {
			c.AddFact(t, c.And(fs...))
		}
	}
	if t.kind == kApp && len(t.args) == 2 && len(e.c.facts[t.id]) == 0 {
		c := e.c
		switch t.op {
		case "elem":
			c.AddFact(t, c.And(c.Eq(c.App("elem.par", "Int", t), t.args[0]), c.Eq(c.App("elem.idx", "Int", t), t.args[1]), c.Lt(t, c.Int(0)),
				c.App("elem.isElem", "Bool", t)))
		case "sub":
			c.AddFact(t, c.And(c.Eq(c.App("sub.par", "Int", t), t.args[0]), c.Eq(c.App("sub.fld", "Int", t), t.args[1]), c.Lt(t, c.Int(0)),
				c.Eq(c.App("elem.isElem", "Bool", t), c.False())))
		}
	}
}

// loopFrame: every write inside the loop is checked against the function's modifies clause where it happens, so
// locations that existed on entry and are outside that clause still hold their pre-loop values at the loop head.
func (e *Exec) loopFrame(fr *Frame, st, pre *State, arr, srt string) {
	if !e.frameOn || e.frameOff || e.pure > 0 || fr.spec == nil || fr.spec != e.top || len(e.top.ModPkgs) > 0 || strings.HasPrefix(arr, "G_") {
		return
	}
	is, _ := arrayParts(srt)
	if is != "Int" {
		return
	}
	c := e.c
	r := c.BoundVarNamed("lf."+arr, "Int")
	conds := []*Term{c.Le(r, e.entryTop)}
	for _, l := range e.frameLocs {
		if l.arr == arr {
			conds = append(conds, c.Not(c.Eq(r, l.ref)))
		}
	}
	now := c.Select(e.heapGet(st, arr, srt), r)
	before := c.Select(e.heapGet(pre, arr, srt), r)
	q := c.ForallPat([]*Term{r}, c.Implies(c.And(conds...), c.Eq(now, before)), now)
	// the quantified fact never reaches a solver: queries carry its instances at the indices they read
	// (see instantiateLoopFrames); the marker term keeps its place in the path condition
	e.loopFrames = append(e.loopFrames, &loopFrameRec{q: q, bv: r, body: c.Implies(c.And(conds...), c.Eq(now, before)), newArr: e.heapGet(st, arr, srt)})
	e.assume(st, q)
}

func (e *Exec) backEdge(fr *Frame, li *loopInfo, from *ssa.BasicBlock, st *State) {
	c := e.c
	ls := e.loopSpec(fr, li)
	if ls == nil {
		return
	}
	// phi values along the back edge
	saved := map[*ssa.Phi]Val{}
	pi := -1
	for i, p := range li.head.Preds {
		if p == from {
			pi = i
		}
	}
	for _, ins := range li.head.Instrs {
		phi, ok := ins.(*ssa.Phi)
		if !ok {
			break
		}
		saved[phi] = fr.vals[phi]
	}
	newVals := map[*ssa.Phi]Val{}
	for phi := range saved {
		newVals[phi] = e.operand(fr, phi.Edges[pi])
	}
	for phi, v := range newVals {
		fr.vals[phi] = v
	}
	for _, cl := range ls.Invariants {
		t := e.evalInv(fr, cl, st)
		e.oblige(st, "inv-step", fmt.Sprintf("inv-step:%d:%s", li.ordinal, cl.Label), t, cl.Pos)
	}
	if ls.Decreases != nil && li.dec0 != nil {
		m1 := e.evalClauseAt(fr, *ls.Decreases, st, nil)
		e.oblige(st, "dec", fmt.Sprintf("dec:%d", li.ordinal), c.And(c.Lt(m1, li.dec0), c.Ge(li.dec0, c.Int(0))), ls.Decreases.Pos)
	}
	for phi, v := range saved {
		fr.vals[phi] = v
	}
}

// ---------- operands ----------

func (e *Exec) operand(fr *Frame, v ssa.Value) Val {
	switch x := v.(type) {
	case *ssa.Const:
		return e.constVal(x)
	case *ssa.Global:
		if isStructT(deref(x.Type())) && false {
			return Val{}
		}
		return Val{P: &Ptr{kind: pGlobal, gname: sanitize(x.Pkg.Pkg.Name() + "." + x.Name()), gtyp: deref(x.Type()), gNonNil: e.eng.globalNonNil(x)}}
	case *ssa.Function:
		return Val{Clo: &Closure{fn: x}}
	case *ssa.Builtin:
		return Val{}
	}
	if val, ok := fr.vals[v]; ok {
		return val
	}
	e.fail("no value for %s (%T) in %s", v.Name(), v, fr.fn)
	return Val{}
}

func deref(t types.Type) types.Type {
	if p, ok := t.Underlying().(*types.Pointer); ok {
		return p.Elem()
	}
	return t
}

// havocVal: a fresh value of a Go type.
func (e *Exec) havocVal(st *State, ty types.Type, hint string) Val {
	if tup, ok := ty.(*types.Tuple); ok {
		vs := make([]Val, tup.Len())
		for i := range vs {
			vs[i] = e.havocVal(st, tup.At(i).Type(), fmt.Sprintf("%s.%d", hint, i))
		}
		return Val{Tup: vs}
	}
	var facts []*Term
	t := e.tm.FreshTyped(hint, ty, &facts)
	e.assume(st, e.c.And(facts...))
	if hasRefs(ty) {
		e.assume(st, e.oldRefs(st, t, ty))
	}
	return Val{T: t}
}

func isRefLike(ty types.Type) bool {
	switch ty.Underlying().(type) {
	case *types.Pointer, *types.Map, *types.Chan:
		return true
	}
	return false
}

// ---------- instructions ----------

func (e *Exec) instr(fr *Frame, st *State, ins ssa.Instruction) {
	c := e.c
	switch x := ins.(type) {
	case *ssa.Alloc:
		ty := deref(x.Type())
		if old, ok := fr.allocs[x]; ok && old.P != nil && old.P.kind == pCell {
			// re-execution (second pass of a spec wrapper): reuse the cell
			st.cells[old.P.cell] = e.tm.Zero(ty)
			fr.vals[x] = old
			return
		}
		if fr.escapes[x] {
			r := e.allocObj(st, ty, x.Comment)
			v := Val{T: r}
			fr.allocs[x] = v
			fr.vals[x] = v
			return
		}
		e.cellN++
		cell := &Cell{id: e.cellN, name: x.Comment, typ: ty}
		if cell.name == "" {
			cell.name = x.Name()
		}
		st.cells[cell] = e.tm.Zero(ty)
		v := Val{P: &Ptr{kind: pCell, cell: cell}}
		fr.allocs[x] = v
		fr.vals[x] = v
	case *ssa.Store:
		addr := e.operand(fr, x.Addr)
		val := e.operand(fr, x.Val)
		ty := x.Val.Type()
		if val.T == nil {
			// storing a closure / static pointer into a cell: remember it out of band
			if addr.P != nil && addr.P.kind == pCell && len(addr.P.path) == 0 {
				e.cellExtra(fr)[addr.P.cell] = val
				return
			}
			e.note("store of non-term value abstracted: " + e.eng.srcText(x))
			return
		}
		if addr.P != nil && addr.P.kind == pCell && len(addr.P.path) == 0 {
			delete(e.cellExtra(fr), addr.P.cell)
		}
		e.nilCheck(st, x, addr)
		e.store(st, addr, ty, val.T)
	case *ssa.UnOp:
		e.unop(fr, st, x)
	case *ssa.BinOp:
		a := e.operand(fr, x.X)
		b := e.operand(fr, x.Y)
		fr.vals[x] = Val{T: e.binop(st, x, x.Op, a, b, x.X.Type(), x.Y.Type(), x.Type())}
	case *ssa.Convert:
		fr.vals[x] = e.convert(st, x, e.operand(fr, x.X), x.X.Type(), x.Type())
	case *ssa.ChangeType:
		fr.vals[x] = e.operand(fr, x.X)
	case *ssa.MultiConvert:
		fr.vals[x] = e.convert(st, x, e.operand(fr, x.X), x.X.Type(), x.Type())
	case *ssa.ChangeInterface:
		fr.vals[x] = e.operand(fr, x.X)
	case *ssa.MakeInterface:
		v := e.operand(fr, x.X)
		// an interface value is an opaque non-nil ref; keep static info for closures
		t := c.Fresh("iface", "Int")
		e.assume(st, c.Gt(t, c.Int(0)))
		if v.T != nil && v.T.sort == "Int" && isRefLike(x.X.Type()) {
			// pointer boxed into an interface: keep identity so that type assertions can recover it
			c.DeclareFun("iface.ptr", "(declare-fun iface.ptr (Int) Int)")
			e.assume(st, c.Eq(c.App("iface.ptr", "Int", t), v.T))
		}
		fr.vals[x] = Val{T: t}
	case *ssa.TypeAssert:
		v := e.operand(fr, x.X)
		var res Val
		if isRefLike(x.AssertedType) && v.T != nil {
			c.DeclareFun("iface.ptr", "(declare-fun iface.ptr (Int) Int)")
			res = Val{T: c.App("iface.ptr", "Int", v.T)}
		} else {
			res = e.havocVal(st, x.AssertedType, "typeassert")
		}
		if x.CommaOk {
			ok := c.Fresh("assert_ok", "Bool")
			fr.vals[x] = Val{Tup: []Val{res, {T: ok}}}
		} else {
			fr.vals[x] = res
		}
		e.note("type assertion abstracted")
	case *ssa.FieldAddr:
		xv := e.operand(fr, x.X)
		styp := deref(x.X.Type())
		e.nilCheck(st, x, xv)
		fr.vals[x] = e.fieldAddr(st, xv, styp, x.Field)
	case *ssa.Field:
		xv := e.operand(fr, x.X)
		si := e.tm.Struct(x.X.Type())
		f := si.fields[x.Field]
		fr.vals[x] = Val{T: c.Sel(f.sel, f.sort, x.Field, si.ctor, xv.T)}
	case *ssa.IndexAddr:
		e.indexAddr(fr, st, x)
	case *ssa.Index:
		xv := e.operand(fr, x.X)
		iv := e.operand(fr, x.Index)
		switch u := x.X.Type().Underlying().(type) {
		case *types.Array:
			e.check(st, "safe-index", x, c.And(c.Le(c.Int(0), iv.T), c.Lt(iv.T, c.Int(u.Len()))))
			fr.vals[x] = Val{T: e.typed(c.Select(xv.T, iv.T), x.Type())}
		case *types.Basic: // string
			e.check(st, "safe-index", x, c.And(c.Le(c.Int(0), iv.T), c.Lt(iv.T, e.strLen(xv.T))))
			fr.vals[x] = Val{T: e.strAt(xv.T, iv.T)}
		default:
			e.fail("Index on %s", x.X.Type())
		}
	case *ssa.Slice:
		e.sliceInstr(fr, st, x)
	case *ssa.MakeSlice:
		ln := e.operand(fr, x.Len).T
		cp := e.operand(fr, x.Cap).T
		e.check(st, "safe-makeslice", x, c.And(c.Le(c.Int(0), ln), c.Le(ln, cp)))
		et := x.Type().Underlying().(*types.Slice).Elem()
		base := e.newRef(st, "mk")
		e.zeroMem(st, base, et)
		fr.vals[x] = Val{T: e.tm.MkSlice(base, c.Int(0), ln, cp)}
		e.allocCheck(fr, st, x, cp)
	case *ssa.MakeMap:
		mt := x.Type().Underlying().(*types.Map)
		r := e.newRef(st, "map")
		dn, vn, ln, ks, vs := e.mapArrs(mt)
		e.frameOff = true
		e.heapSet(st, dn, c.Store(e.heapGet(st, dn, arrSort("Int", arrSort(ks, "Bool"))), r, c.App("(as const "+arrSort(ks, "Bool")+")", arrSort(ks, "Bool"), c.False())))
		_ = vn
		_ = vs
		e.heapSet(st, ln, c.Store(e.heapGet(st, ln, arrSort("Int", "Int")), r, c.Int(0)))
		e.frameOff = false
		fr.vals[x] = Val{T: r}
	case *ssa.MakeChan:
		fr.vals[x] = Val{T: e.newRef(st, "chan")}
	case *ssa.MakeClosure:
		fn := x.Fn.(*ssa.Function)
		bs := make([]Val, len(x.Bindings))
		for i, b := range x.Bindings {
			bs[i] = e.operand(fr, b)
		}
		fr.vals[x] = Val{Clo: &Closure{fn: fn, bindings: bs}}
	case *ssa.Lookup:
		e.lookup(fr, st, x)
	case *ssa.MapUpdate:
		e.mapUpdate(fr, st, x)
	case *ssa.Range:
		fr.vals[x] = Val{T: e.operand(fr, x.X).T}
	case *ssa.Next:
		e.next(fr, st, x)
	case *ssa.Extract:
		tv := e.operand(fr, x.Tuple)
		if x.Index >= len(tv.Tup) {
			e.fail("extract from non-tuple in %s", fr.fn)
		}
		fr.vals[x] = tv.Tup[x.Index]
		if call, ok := x.Tuple.(*ssa.Call); ok && lastExtractOf(x) {
			// "after call" clauses may name the call's results: they run once the results are bound
			e.siteAsserts(fr, st, call.Pos(), 2)
		}
	case *ssa.Call:
		if fr.spec != nil && e.pure == 0 && x.Pos() != token.NoPos {
			// arg_of(k, f, i): receiver first (the interface value of an invoke, else the first argument of a method
			// call), then the arguments as written
			var vs []Val
			if x.Call.IsInvoke() {
				vs = append(vs, e.operand(fr, x.Call.Value))
			} else if f := x.Call.StaticCallee(); f == nil || f.Signature.Recv() == nil {
				vs = append(vs, Val{})
			}
			for _, a := range x.Call.Args {
				// the arguments as written: a variadic tail built by the compiler (f(a, b, c)) is its elements
				if elems, ok := varargElems(a); ok {
					for _, el := range elems {
						vs = append(vs, e.operand(fr, el))
					}
					continue
				}
				vs = append(vs, e.operand(fr, a))
			}
			if fr.callArgs == nil {
				fr.callArgs = map[string][]Val{}
			}
			pp := e.eng.fset.Position(x.Pos())
			fr.callArgs[fmt.Sprintf("%s:%d", pp.Filename, pp.Offset)] = vs
			if fr.callAt == nil {
				fr.callAt = map[string]callSite{}
			}
			fr.callAt[fmt.Sprintf("%s:%d", pp.Filename, pp.Offset)] = callSite{reach: st.reach, block: x.Block()}
		}
		e.siteAsserts(fr, st, x.Pos(), 1)
		fr.vals[x] = e.call(fr, st, x, &x.Call)
		if fr.spec != nil && e.pure == 0 && x.Pos() != token.NoPos {
			if fr.callRes == nil {
				fr.callRes = map[string]Val{}
			}
			pp := e.eng.fset.Position(x.Pos())
			fr.callRes[fmt.Sprintf("%s:%d", pp.Filename, pp.Offset)] = fr.vals[x]
		}
		if !hasExtract(x) {
			e.siteAsserts(fr, st, x.Pos(), 2)
		}
	case *ssa.Defer:
		if x.Block() != fr.fn.Blocks[0] && !dominatesReturns(x.Block(), fr.fn) {
			// a defer some returns do not pass: an "armed" flag travels with the state
			if e.inLoop(fr, x.Block()) {
				e.fail("defer inside a loop in %s", fr.fn)
			}
			cell := fr.deferCell[x]
			if cell == nil {
				e.fail("conditional defer without a flag in %s", fr.fn)
			}
			st.cells[cell] = e.c.True()
		}
		fr.defers = append(fr.defers, x)
	case *ssa.RunDefers:
		for i := len(fr.defers) - 1; i >= 0; i-- {
			d := fr.defers[i]
			cell := fr.deferCell[d]
			if cell == nil {
				e.call(fr, st, d, &d.Call)
				continue
			}
			armed := st.cells[cell]
			switch {
			case armed == nil || isFalse(armed):
			case isTrue(armed):
				e.call(fr, st, d, &d.Call)
			default:
				s1, s0 := st.clone(), st.clone()
				e.assume(s1, armed)
				e.assume(s0, e.c.Not(armed))
				e.call(fr, s1, d, &d.Call)
				*st = *e.mergeStates([]*State{s1, s0}, "defer")
			}
		}
	case *ssa.Go:
		e.note("go statement ignored (sequential semantics)")
	case *ssa.Send:
		e.note("channel send abstracted (heap havocked)")
		e.havocAll(st)
	case *ssa.Select:
		if x.Blocking {
			e.note("select abstracted (heap havocked)")
			e.havocAll(st)
		} else {
			// a select with a default case is a poll: it does not yield to other goroutines
			e.note("non-blocking select abstracted (outcome arbitrary, heap kept)")
		}
		fr.vals[x] = e.havocVal(st, x.Type(), "select")
	case *ssa.DebugRef:
	case *ssa.SliceToArrayPointer:
		e.fail("slice to array pointer conversion")
	default:
		e.fail("unsupported instruction %T in %s", ins, fr.fn)
	}
}

// rangeSnapshots: 'since if k' anchors take their snapshot before the first instruction of the condition.
func (e *Exec) rangeSnapshots(fr *Frame, st *State, ins ssa.Instruction) {
	if fr.spec == nil || e.pure > 0 || len(fr.spec.Asserts) == 0 || ins.Pos() == token.NoPos {
		return
	}
	var pp token.Position
	for _, a := range fr.spec.Asserts {
		if a.SinceEnd == 0 || a.Dead {
			continue
		}
		key := fmt.Sprintf("%s:%d", a.SinceFile, a.SinceOff)
		if fr.snaps[key] != nil {
			continue
		}
		if pp.Filename == "" {
			pp = e.eng.fset.Position(ins.Pos())
		}
		if pp.Filename == a.SinceFile && a.SinceOff <= pp.Offset && pp.Offset < a.SinceEnd {
			if fr.snaps == nil {
				fr.snaps = map[string]*State{}
			}
			fr.snaps[key] = st.clone()
			if os.Getenv("SHVC_DEBUG") != "" {
				fmt.Fprintf(os.Stderr, "snapshot %s at %s (%s)\n", key, pp, ins)
			}
		}
	}
}

// siteAsserts: contract assertions attached to a return statement (kind 0) or to a call (1 before, 2 after).
func (e *Exec) siteAsserts(fr *Frame, st *State, pos token.Pos, kind int) {
	if fr.spec == nil || (len(fr.spec.Asserts) == 0 && !fr.spec.hasSinceInvariant()) || e.pure > 0 || pos == token.NoPos {
		return
	}
	pp := e.eng.fset.Position(pos)
	if kind == 1 && os.Getenv("SHVC_DEBUG_SITES") != "" {
		fmt.Fprintf(os.Stderr, "site %s off=%d\n", pp, pp.Offset)
		for _, a := range fr.spec.Asserts {
			fmt.Fprintf(os.Stderr, "   assert %s at %s off=%d dead=%v before=%v\n", a.Clause.Label, a.File, a.Off, a.Dead, a.Before)
		}
	}
	if kind == 1 {
		// snapshot points for "since call k f": the state just before that call
		for _, ls := range fr.spec.Loops {
			for _, cl := range ls.Invariants {
				if cl.SinceCallee != "" && cl.SinceFile == pp.Filename && cl.SinceOff == pp.Offset {
					if fr.snaps == nil {
						fr.snaps = map[string]*State{}
					}
					fr.snaps[fmt.Sprintf("%s:%d", cl.SinceFile, cl.SinceOff)] = st.clone()
				}
			}
		}
		for _, a := range fr.spec.Asserts {
			if !a.Dead && a.SinceCallee != "" && a.SinceEnd == 0 && a.SinceFile == pp.Filename && a.SinceOff == pp.Offset {
				if fr.snaps == nil {
					fr.snaps = map[string]*State{}
				}
				fr.snaps[fmt.Sprintf("%s:%d", a.SinceFile, a.SinceOff)] = st.clone()
			}
		}
	}
	for _, a := range fr.spec.Asserts {
		if a.Dead {
			continue
		}
		switch kind {
		case 0:
			if !a.AtReturn {
				continue
			}
		case 1:
			if a.AtReturn || !a.Before {
				continue
			}
		case 2:
			if a.AtReturn || a.Before {
				continue
			}
		}
		if a.File == pp.Filename && a.Off == pp.Offset {
			if a.SinceCallee != "" {
				snap := fr.snaps[fmt.Sprintf("%s:%d", a.SinceFile, a.SinceOff)]
				if snap == nil {
					e.fail("assert %s: the 'since' call was not executed before the assertion", a.Clause.Label)
				}
				fr.oldOverride = snap
			}
			if !e.clauseInputsReady(fr, a.Clause) {
				// result_of / arg_of of a call that has not run yet at this point (the code was reordered): the
				// assertion cannot hold as written
				fr.oldOverride = nil
				e.note("assertion " + a.Clause.Label + " names a call that is not executed before it")
				saved := st.reach
				e.oblige(st, "assert", "assert:"+a.Clause.Label, e.c.False(), pos)
				st.reach = saved
				continue
			}
			t := e.evalClauseAt(fr, a.Clause, st, nil)
			if os.Getenv("SHVC_DEBUG") != "" {
				fmt.Fprintf(os.Stderr, "assert %s = %s\n", a.Clause.Label, e.c.Show(t))
			}
			fr.oldOverride = nil
			if a.Assume {
				e.assumed["assumed at a call site (contract 'assume' clause): "+a.Clause.Label+": "+a.Clause.Text] = true
				e.assume(st, t)
				continue
			}
			// checked, not assumed afterwards: an assertion that fails (or is not claimed) must not make the
			// assertions after it provable
			saved := st.reach
			e.oblige(st, "assert", "assert:"+a.Clause.Label, t, pos)
			st.reach = saved
			// vacuity guard: the assertion site itself is reachable under everything assumed so far (including
			// callee preconditions that were not proved)
			e.oblNames["reach:"+a.Clause.Label]++
			cn := e.oblPrefix + "reach:" + a.Clause.Label
			if n := e.oblNames["reach:"+a.Clause.Label]; n > 1 {
				cn = fmt.Sprintf("%s#%d", cn, n)
			}
			e.obls = append(e.obls, &Obligation{Name: cn, Kind: "cover", Reach: st.reach, Cond: e.c.True(), Cover: true, Pos: pos})
		}
	}
}

// hasExtract: the call's tuple result is taken apart by Extract instructions directly after it.
func hasExtract(c *ssa.Call) bool {
	b := c.Block()
	for i, ins := range b.Instrs {
		if ins == ssa.Instruction(c) && i+1 < len(b.Instrs) {
			x, ok := b.Instrs[i+1].(*ssa.Extract)
			return ok && x.Tuple == ssa.Value(c)
		}
	}
	return false
}

func lastExtractOf(x *ssa.Extract) bool {
	b := x.Block()
	for i, ins := range b.Instrs {
		if ins == ssa.Instruction(x) {
			if i+1 < len(b.Instrs) {
				if y, ok := b.Instrs[i+1].(*ssa.Extract); ok && y.Tuple == x.Tuple {
					return false
				}
			}
			return true
		}
	}
	return true
}

func (e *Exec) inLoop(fr *Frame, b *ssa.BasicBlock) bool {
	for _, li := range fr.loops {
		if li.body[b] {
			return true
		}
	}
	return false
}

func dominatesReturns(b *ssa.BasicBlock, fn *ssa.Function) bool {
	for _, r := range fn.Blocks {
		if len(r.Instrs) == 0 {
			continue
		}
		if _, ok := r.Instrs[len(r.Instrs)-1].(*ssa.Return); ok {
			if !b.Dominates(r) {
				return false
			}
		}
	}
	return true
}

func (e *Exec) cellExtra(fr *Frame) map[*Cell]Val {
	if e.extra == nil {
		e.extra = map[*Cell]Val{}
	}
	return e.extra
}

func (e *Exec) nilCheck(st *State, ins ssa.Instruction, pv Val) {
	if pv.P != nil && (pv.P.kind == pCell || pv.P.kind == pGlobal) {
		return
	}
	var r *Term
	if pv.P != nil {
		r = pv.P.obj
	} else {
		r = pv.T
	}
	if r == nil || r.bound {
		return
	}
	e.check(st, "safe-nil", ins, e.c.Not(e.c.Eq(r, e.c.Int(0))))
}

func (e *Exec) unop(fr *Frame, st *State, x *ssa.UnOp) {
	c := e.c
	v := e.operand(fr, x.X)
	switch x.Op {
	case token.MUL:
		if v.P != nil && v.P.kind == pCell && len(v.P.path) == 0 {
			if ex, ok := e.cellExtra(fr)[v.P.cell]; ok {
				fr.vals[x] = ex
				return
			}
		}
		e.nilCheck(st, x, v)
		lv := e.load(st, v, x.Type())
		if e.pure == 0 && lv.T != nil && hasRefs(x.Type()) && (v.P == nil || v.P.kind != pCell) {
			e.assume(st, e.oldRefs(st, lv.T, x.Type()))
		}
		fr.vals[x] = lv
	case token.NOT:
		fr.vals[x] = Val{T: c.Not(v.T)}
	case token.SUB:
		if isFloat(x.Type()) {
			if v.T.sort == "Real" {
				fr.vals[x] = Val{T: c.App("-", "Real", v.T)}
			} else {
				fr.vals[x] = Val{T: c.App("fp.neg", v.T.sort, v.T)}
			}
			return
		}
		fr.vals[x] = Val{T: e.wrap(c.Sub(c.Int(0), v.T), x.Type())}
	case token.XOR:
		if isUnsigned(x.Type()) {
			_, hi, _ := intRange(x.Type().Underlying().(*types.Basic))
			fr.vals[x] = Val{T: c.Sub(c.BigInt(hi), v.T)}
		} else {
			fr.vals[x] = Val{T: c.Sub(c.Int(-1), v.T)}
		}
	case token.ARROW:
		e.note("channel receive abstracted (heap havocked)")
		e.havocAll(st)
		fr.vals[x] = e.havocVal(st, x.Type(), "recv")
	default:
		e.fail("unop %s", x.Op)
	}
}

func (e *Exec) indexAddr(fr *Frame, st *State, x *ssa.IndexAddr) {
	c := e.c
	xv := e.operand(fr, x.X)
	iv := e.operand(fr, x.Index).T
	switch u := x.X.Type().Underlying().(type) {
	case *types.Slice:
		s := xv.T
		e.check(st, "safe-index", x, c.And(c.Le(c.Int(0), iv), c.Lt(iv, e.tm.SliceLen(s))))
		idx := c.Add(e.tm.SliceOff(s), iv)
		if isStructT(u.Elem()) {
			fr.vals[x] = Val{T: e.elemRef(e.tm.SliceBase(s), idx)}
		} else {
			fr.vals[x] = Val{P: &Ptr{kind: pElem, obj: e.tm.SliceBase(s), idx: idx, elemT: u.Elem()}}
		}
	case *types.Pointer:
		at := u.Elem().Underlying().(*types.Array)
		e.check(st, "safe-index", x, c.And(c.Le(c.Int(0), iv), c.Lt(iv, c.Int(at.Len()))))
		if xv.P != nil && (xv.P.kind == pCell || xv.P.kind == pGlobal || xv.P.kind == pElem) {
			np := *xv.P
			np.path = append(append([]pathStep{}, xv.P.path...), pathStep{kind: stIndex, idx: iv, typ: u.Elem()})
			fr.vals[x] = Val{P: &np}
			return
		}
		e.nilCheck(st, x, xv)
		if memArrayT(u.Elem()) {
			fr.vals[x] = Val{P: &Ptr{kind: pElem, obj: xv.T, idx: iv, elemT: at.Elem()}}
			return
		}
		if isStructT(at.Elem()) && xv.T != nil {
			// array of structs on the heap: elements are objects elem(ref, i), as for slices of structs
			fr.vals[x] = Val{T: e.elemRef(xv.T, iv)}
			return
		}
		if isArrayT(at.Elem()) && xv.T != nil {
			// array of arrays: the inner arrays are objects elem(ref, i) of their own
			fr.vals[x] = Val{T: e.elemRef(xv.T, iv)}
			return
		}
		e.fail("IndexAddr on pointer to array of aggregates: %s (%s) at %s", x, x.X.Type(), e.eng.fset.Position(x.Pos()))
	default:
		e.fail("IndexAddr on %s", x.X.Type())
	}
}

func (e *Exec) zeroMem(st *State, base *Term, et types.Type) {
	c := e.c
	if isStructT(et) {
		e.note("make([]struct): element zeroing not modelled (elements unconstrained)")
		return
	}
	n, s := e.memArr(et)
	es := e.tm.Sort(et)
	saved := e.frameOff
	e.frameOff = true
	e.heapSet(st, n, c.Store(e.heapGet(st, n, s), base, c.App("(as const "+arrSort("Int", es)+")", arrSort("Int", es), e.tm.Zero(et))))
	e.frameOff = saved
}

func (e *Exec) sliceInstr(fr *Frame, st *State, x *ssa.Slice) {
	c := e.c
	xv := e.operand(fr, x.X)
	var lo, hi, mx *Term
	if x.Low != nil {
		lo = e.operand(fr, x.Low).T
	} else {
		lo = c.Int(0)
	}
	if x.High != nil {
		hi = e.operand(fr, x.High).T
	}
	if x.Max != nil {
		mx = e.operand(fr, x.Max).T
	}
	switch u := x.X.Type().Underlying().(type) {
	case *types.Slice:
		s := xv.T
		cp := e.tm.SliceCap(s)
		if hi == nil {
			hi = e.tm.SliceLen(s)
		}
		if mx == nil {
			mx = cp
		}
		e.check(st, "safe-slice", x, c.And(c.Le(c.Int(0), lo), c.Le(lo, hi), c.Le(hi, mx), c.Le(mx, cp)))
		fr.vals[x] = Val{T: e.tm.MkSlice(e.tm.SliceBase(s), c.Add(e.tm.SliceOff(s), lo), c.Sub(hi, lo), c.Sub(mx, lo))}
	case *types.Basic: // string
		if hi == nil {
			hi = e.strLen(xv.T)
		}
		e.check(st, "safe-slice", x, c.And(c.Le(c.Int(0), lo), c.Le(lo, hi), c.Le(hi, e.strLen(xv.T))))
		fr.vals[x] = Val{T: e.strSub(xv.T, lo, hi)}
	case *types.Pointer:
		at := u.Elem().Underlying().(*types.Array)
		n := c.Int(at.Len())
		if hi == nil {
			hi = n
		}
		if mx == nil {
			mx = n
		}
		e.check(st, "safe-slice", x, c.And(c.Le(c.Int(0), lo), c.Le(lo, hi), c.Le(hi, mx), c.Le(mx, n)))
		if xv.T == nil {
			e.fail("slicing a by-value local array (escape analysis gap) in %s", fr.fn)
		}
		if !memArrayT(u.Elem()) && !isStructT(at.Elem()) {
			// array of arrays: as a slice its elements are read from the slice memory of the inner array type,
			// which writes through element pointers do not reach - the elements are unconstrained (over-approximation)
			e.note("slice of an array of arrays: element values unconstrained")
		}
		fr.vals[x] = Val{T: e.tm.MkSlice(xv.T, lo, c.Sub(hi, lo), c.Sub(mx, lo))}
	default:
		e.fail("Slice on %s", x.X.Type())
	}
}

func (e *Exec) lookup(fr *Frame, st *State, x *ssa.Lookup) {
	c := e.c
	xv := e.operand(fr, x.X)
	iv := e.operand(fr, x.Index)
	if mt, ok := x.X.Type().Underlying().(*types.Map); ok {
		dn, vn, _, ks, vs := e.mapArrs(mt)
		dom := c.Select(e.heapGet(st, dn, arrSort("Int", arrSort(ks, "Bool"))), xv.T)
		val := c.Select(e.heapGet(st, vn, arrSort("Int", arrSort(ks, vs))), xv.T)
		has := c.Select(dom, iv.T)
		v := c.Ite(has, e.typed(c.Select(val, iv.T), mt.Elem()), e.tm.Zero(mt.Elem()))
		if hasRefs(mt.Elem()) && !iv.T.bound && e.pure == 0 {
			e.assume(st, e.oldRefs(st, c.Select(val, iv.T), mt.Elem()))
		}
		if x.CommaOk {
			fr.vals[x] = Val{Tup: []Val{{T: v}, {T: has}}}
		} else {
			fr.vals[x] = Val{T: v}
		}
		return
	}
	// string index
	e.check(st, "safe-index", x, c.And(c.Le(c.Int(0), iv.T), c.Lt(iv.T, e.strLen(xv.T))))
	fr.vals[x] = Val{T: e.strAt(xv.T, iv.T)}
}

func (e *Exec) mapUpdate(fr *Frame, st *State, x *ssa.MapUpdate) {
	c := e.c
	m := e.operand(fr, x.Map).T
	k := e.operand(fr, x.Key).T
	v := e.operand(fr, x.Value)
	mt := x.Map.Type().Underlying().(*types.Map)
	e.check(st, "safe-nilmap", x, c.Not(c.Eq(m, c.Int(0))))
	if v.T == nil {
		e.fail("map update with non-term value")
	}
	e.mapStore(st, mt, m, k, v.T)
}

func (e *Exec) mapStore(st *State, mt *types.Map, m, k, v *Term) {
	c := e.c
	dn, vn, ln, ks, vs := e.mapArrs(mt)
	ds, vss := arrSort("Int", arrSort(ks, "Bool")), arrSort("Int", arrSort(ks, vs))
	domA := e.heapGet(st, dn, ds)
	valA := e.heapGet(st, vn, vss)
	lenA := e.heapGet(st, ln, arrSort("Int", "Int"))
	dom := c.Select(domA, m)
	e.frameCheck(st, dn, m)
	e.heapSet(st, ln, c.Store(lenA, m, c.Add(c.Select(lenA, m), c.Ite(c.Select(dom, k), c.Int(0), c.Int(1)))))
	e.heapSet(st, dn, c.Store(domA, m, c.Store(dom, k, c.True())))
	e.heapSet(st, vn, c.Store(valA, m, c.Store(c.Select(valA, m), k, v)))
}

func (e *Exec) mapDelete(st *State, mt *types.Map, m, k *Term) {
	c := e.c
	dn, _, ln, ks, _ := e.mapArrs(mt)
	ds := arrSort("Int", arrSort(ks, "Bool"))
	domA := e.heapGet(st, dn, ds)
	lenA := e.heapGet(st, ln, arrSort("Int", "Int"))
	dom := c.Select(domA, m)
	e.frameCheck(st, dn, m)
	e.heapSet(st, ln, c.Store(lenA, m, c.Sub(c.Select(lenA, m), c.Ite(c.Select(dom, k), c.Int(1), c.Int(0)))))
	e.heapSet(st, dn, c.Store(domA, m, c.Store(dom, k, c.False())))
}

func (e *Exec) mapLen(st *State, mt *types.Map, m *Term) *Term {
	c := e.c
	_, _, ln, _, _ := e.mapArrs(mt)
	t := c.Select(e.heapGet(st, ln, arrSort("Int", "Int")), m)
	if !t.bound {
		c.AddFact(t, c.Ge(t, c.Int(0)))
	}
	return t
}

func (e *Exec) next(fr *Frame, st *State, x *ssa.Next) {
	c := e.c
	rng := x.Iter.(*ssa.Range)
	tup := x.Type().(*types.Tuple)
	ok := c.Fresh("next_ok", "Bool")
	if x.IsString {
		s := e.operand(fr, rng.X).T
		i := e.havocVal(st, tup.At(1).Type(), "next_i")
		r := e.havocVal(st, tup.At(2).Type(), "next_r")
		e.assume(st, c.Implies(ok, c.And(c.Le(c.Int(0), i.T), c.Lt(i.T, e.strLen(s)))))
		fr.vals[x] = Val{Tup: []Val{{T: ok}, i, r}}
		e.note("range over string abstracted (arbitrary position)")
		return
	}
	mt := rng.X.Type().Underlying().(*types.Map)
	m := e.operand(fr, rng.X).T
	dn, vn, _, ks, vs := e.mapArrs(mt)
	var k Val
	if tup.At(1).Type().Underlying() != types.Typ[types.Invalid] {
		k = e.havocVal(st, mt.Key(), "next_k")
	} else {
		var facts []*Term
		k = Val{T: e.tm.FreshTyped("next_k", mt.Key(), &facts)}
		e.assume(st, c.And(facts...))
	}
	dom := c.Select(e.heapGet(st, dn, arrSort("Int", arrSort(ks, "Bool"))), m)
	val := c.Select(e.heapGet(st, vn, arrSort("Int", arrSort(ks, vs))), m)
	e.assume(st, c.Implies(ok, c.And(c.Select(dom, k.T), c.Not(c.Eq(m, c.Int(0)))))) // a nil map has no keys
	v := e.typed(c.Select(val, k.T), mt.Elem())
	if hasRefs(mt.Elem()) {
		e.assume(st, e.oldRefs(st, v, mt.Elem()))
	}
	fr.vals[x] = Val{Tup: []Val{{T: ok}, k, {T: v}}}
	e.note("range over map abstracted (arbitrary key each iteration)")
}

// ---------- strings ----------

func (e *Exec) strLen(s *Term) *Term {
	t := e.c.App("str.len", "Int", s)
	if !t.bound {
		e.c.AddFact(t, e.c.Ge(t, e.c.Int(0)))
	}
	return t
}
func (e *Exec) strAt(s, i *Term) *Term {
	t := e.c.App("str.at", "Int", s, i)
	if !t.bound {
		e.c.AddFact(t, e.c.And(e.c.Le(e.c.Int(0), t), e.c.Le(t, e.c.Int(255))))
	}
	return t
}
func (e *Exec) strSub(s, lo, hi *Term) *Term {
	c := e.c
	e.tm.declStr()
	c.DeclareFun("str.sub", "(declare-fun str.sub (Str Int Int) Str)")
	if lit, ok := litInt(lo); ok && lit.Sign() == 0 {
		if hi == c.App("str.len", "Int", s) {
			return s
		}
	}
	t := c.App("str.sub", "Str", s, lo, hi)
	if !t.bound {
		c.AddFact(t, c.Eq(c.App("str.len", "Int", t), c.Sub(hi, lo)))
		j := c.BoundVar("j", "Int")
		c.AddFact(t, c.ForallPat([]*Term{j}, c.Implies(c.And(c.Le(c.Int(0), j), c.Lt(j, c.Sub(hi, lo))),
			c.Eq(c.App("str.at", "Int", t, j), c.App("str.at", "Int", s, c.Add(lo, j)))), c.App("str.at", "Int", t, j)))
	}
	return t
}

func (e *Exec) allocCheck(fr *Frame, st *State, ins ssa.Instruction, n *Term) {
	if fr.spec == nil || fr.spec.Alloc == nil || e.pure > 0 {
		return
	}
	bound := e.evalClauseAt(fr, *fr.spec.Alloc, st, nil)
	e.oblige(st, "alloc", "alloc:"+e.eng.srcText(ins), e.c.Le(n, bound), ins.Pos())
}

func shortFn(fn *ssa.Function) string {
	s := fn.String()
	if i := strings.LastIndex(s, "/"); i >= 0 {
		s = s[i+1:]
		if strings.HasPrefix(fn.String(), "(*") {
			s = "(*" + s
		} else if strings.HasPrefix(fn.String(), "(") {
			s = "(" + s
		}
	}
	return s
}
