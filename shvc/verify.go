package main

// Per-function verification: set up symbolic inputs, assume requires, run the
// body, check ensures, collect obligations; then discharge with the solvers.

import (
	"runtime/debug"
	"os"
	"fmt"
	"go/types"
	"sort"
	"strings"
	"time"

	"golang.org/x/tools/go/ssa"
)

type FuncResult struct {
	Spec        *FuncSpec
	Name        string // display name pkg.Func
	Obls        []*OblResult
	Notes       map[string]int
	Assumed     []string
	Err         string // unsupported / outside subset
	Exec        *Exec
	CoverPre    string
	CoverExit   string
	Blocks      int
	Instrs      int
	CalleeTreat map[string]string
}

type OblResult struct {
	O       *Obligation
	Name    string // fully qualified
	Status  string // proved | failed | unknown | trivial
	Solver  string
	TimeS   float64
	Model   map[string]string
	Query   string
	Output  string
	PosStr  string
	Claimed bool
}

func (eng *Engine) displayName(sp *FuncSpec) string {
	p := sp.PkgPath
	if i := strings.LastIndex(p, "/"); i >= 0 {
		p = p[i+1:]
	}
	return p + "." + sp.Name
}

// verifyFunc generates the obligations of one function.
func (eng *Engine) verifyFunc(sp *FuncSpec) (res *FuncResult) {
	res = &FuncResult{Spec: sp, Name: eng.displayName(sp), Notes: map[string]int{}}
	fn := sp.Fn
	c := NewTermCtx()
	tm := NewTypeMap(c)
	tm.floatReal = sp.FloatReal
	e := &Exec{eng: eng, c: c, tm: tm, heapSorts: map[string]string{}, touched: map[string]bool{}, oblNames: map[string]int{},
		notes: res.Notes, assumed: map[string]bool{}, top: sp, safe: sp.Safe}
	res.Exec = e
	for _, b := range fn.Blocks {
		res.Blocks++
		res.Instrs += len(b.Instrs)
	}
	defer func() {
		if r := recover(); r != nil {
			if u, ok := r.(unsupported); ok {
				res.Err = u.msg
				return
			}
			// an internal error of the generator on this function: the function is undecided, the check goes on
			res.Err = fmt.Sprintf("internal error: %v", r)
			if os.Getenv("SHVC_DEBUG") != "" {
				debug.PrintStack()
			}
		}
	}()
	st := &State{reach: c.True(), cells: map[*Cell]*Term{}, heap: map[string]*Term{}}
	st.allocTop = c.Const("allocTop0", "Int")
	e.assume(st, c.Ge(st.allocTop, c.Int(0)))
	e.entryTop = st.allocTop
	// symbolic inputs
	var args []Val
	for i, p := range fn.Params {
		var facts []*Term
		name := p.Name()
		if name == "" || name == "_" {
			name = fmt.Sprintf("p%d", i)
		}
		t := tm.FreshTyped("in_"+name, p.Type(), &facts)
		e.assume(st, c.And(facts...))
		if hasRefs(p.Type()) {
			e.assume(st, e.oldRefs(st, t, p.Type()))
		}
		args = append(args, Val{T: t})
		iv := inputVar{Name: name, Typ: p.Type(), T: t}
		// constants naming the first elements, so that a counterexample can be turned into a concrete argument
		switch u := p.Type().Underlying().(type) {
		case *types.Slice:
			if b, ok := u.Elem().Underlying().(*types.Basic); ok && b.Info()&(types.IsInteger|types.IsFloat|types.IsBoolean) != 0 {
				mn, ms := e.memArr(u.Elem())
				arr := c.Select(e.heapGet(st, mn, ms), tm.SliceBase(t))
				for k := 0; k < replayElems; k++ {
					v := c.Fresh(fmt.Sprintf("in_%s.e%d", name, k), tm.Sort(u.Elem()))
					iv.Elems = append(iv.Elems, v)
					e.inputDefs = append(e.inputDefs, c.Eq(v, c.Select(arr, c.Add(tm.SliceOff(t), c.Int(int64(k))))))
				}
			}
		case *types.Pointer:
			if isStructT(u.Elem()) {
				n := 0
				var mirror func(v *Term, ty types.Type, path string) *Term
				mirror = func(v *Term, ty types.Type, path string) *Term {
					if isStructT(ty) {
						si := tm.Struct(ty)
						var as []*Term
						for i, f := range si.fields {
							as = append(as, mirror(c.Sel(f.sel, f.sort, i, si.ctor, v), f.typ, path+"."+f.name))
						}
						return c.App(si.ctor, si.sort, as...)
					}
					if b, ok := ty.Underlying().(*types.Basic); ok && b.Info()&(types.IsInteger|types.IsFloat|types.IsBoolean) != 0 && n < 64 {
						n++
						k := c.Fresh("in_"+name+path, v.sort)
						e.inputDefs = append(e.inputDefs, c.Eq(k, v))
						iv.Elems = append(iv.Elems, k)
						return k
					}
					return v
				}
				whole := e.loadObj(st, t, u.Elem())
				iv.Pointee = mirror(whole, u.Elem(), "")
			}
		case *types.Basic:
			if u.Info()&types.IsString != 0 {
				iv.LenVar = c.Fresh("in_"+name+".len", "Int")
				e.inputDefs = append(e.inputDefs, c.Eq(iv.LenVar, e.strLen(t)))
				for k := 0; k < replayElems; k++ {
					v := c.Fresh(fmt.Sprintf("in_%s.c%d", name, k), "Int")
					iv.Elems = append(iv.Elems, v)
					e.inputDefs = append(e.inputDefs, c.Eq(v, e.strAt(t, c.Int(int64(k)))))
				}
			}
		}
		e.inputs = append(e.inputs, iv)
	}
	fr := e.newFrame(fn)
	fr.spec = sp
	fr.params = args
	// a function literal verified on its own: every captured variable is a cell of the enclosing function holding
	// an arbitrary value; distinct variables are distinct cells
	for i, fv := range fn.FreeVars {
		var facts []*Term
		if eng.privateCapture(fn, i) {
			// only the enclosing function and this literal ever touch the variable (loads and stores): no callee can
			// change it behind the literal's back, so it is a cell, not a heap object
			ty := deref(fv.Type())
			e.cellN++
			cell := &Cell{id: e.cellN, name: fv.Name(), typ: ty}
			iv := tm.FreshTyped("cap_"+fv.Name(), ty, &facts)
			e.assume(st, c.And(facts...))
			if hasRefs(ty) {
				e.assume(st, e.oldRefs(st, iv, ty))
			}
			st.cells[cell] = iv
			fr.bindings = append(fr.bindings, Val{P: &Ptr{kind: pCell, cell: cell}})
			continue
		}
		t := tm.FreshTyped("cap_"+fv.Name(), fv.Type(), &facts)
		e.assume(st, c.And(facts...))
		e.assume(st, c.Not(c.Eq(t, c.Int(0))))
		if hasRefs(fv.Type()) {
			e.assume(st, e.oldRefs(st, t, fv.Type()))
		}
		for _, b := range fr.bindings {
			if b.T != nil && b.T.sort == t.sort {
				e.assume(st, c.Not(c.Eq(b.T, t)))
			}
		}
		fr.bindings = append(fr.bindings, Val{T: t})
	}
	fr.entry = st.clone()
	// requires
	for _, cl := range sp.Requires {
		t := e.evalClauseCall(cl, args, nil, st, st)
		e.assume(st, t)
	}
	st.reach = c.Name(st.reach, "pre")
	e.obls = append(e.obls, &Obligation{Name: "cover:pre", Kind: "cover", Reach: st.reach, Cond: c.True(), Cover: true})
	// frame
	if sp.HasModifies && !sp.TrustFrame {
		e.frameLocs = e.modLocs(sp, args, st)
		e.frameOn = true
	}
	if sp.TrustFrame {
		e.assumed["modifies clause assumed, not checked against the body (trust frame): "+sp.Name] = true
	}
	out, results := e.run(fr, args, st)
	fr.cur = nil // postconditions sit after every path
	e.obls = append(e.obls, &Obligation{Name: "cover:exit", Kind: "cover", Reach: out.reach, Cond: c.True(), Cover: true})
	fr.entry = fr.entry // entry state for old()
	for _, cl := range sp.Ensures {
		t := e.evalClauseAt(fr, cl, out, results)
		e.obls = append(e.obls, &Obligation{Name: "post:" + cl.Label, Kind: "post", Reach: out.reach, Cond: t})
	}
	for a := range e.assumed {
		res.Assumed = append(res.Assumed, a)
	}
	sort.Strings(res.Assumed)
	for _, o := range e.obls {
		res.Obls = append(res.Obls, &OblResult{O: o, Name: res.Name + "#" + o.Name, PosStr: eng.posString(o.Pos)})
	}
	return res
}

// discharge runs the solver portfolio on every obligation (in parallel).
func (eng *Engine) discharge(frs []*FuncResult, sv *Solvers, only func(name string) bool) {
	type job struct {
		fr *FuncResult
		or *OblResult
	}
	var jobs []job
	for _, fr := range frs {
		if fr.Err != "" {
			continue
		}
		for _, or := range fr.Obls {
			if only != nil && !only(or.Name) {
				if or.Status == "" {
					or.Status = "skipped"
				}
				continue
			}
			if or.Status == "skipped" {
				or.Status = ""
			} else if or.Status != "" {
				continue // decided by an earlier pass
			}
			jobs = append(jobs, job{fr, or})
		}
	}
	// queries must be rendered sequentially per Exec (term context is not thread-safe)
	for _, j := range jobs {
		c := j.fr.Exec.c
		o := j.or.O
		if o.Cover {
			ts, _ := j.fr.Exec.instantiateLoopFrames([]*Term{c.Polarize(o.Reach, true, map[[2]int]*Term{})})
			for i := range ts {
				ts[i] = c.AbstractForalls(ts[i])
			}
			j.or.Query = c.Query(ts, false, nil)
		} else if isTrue(o.Cond) {
			j.or.Status = "proved"
			j.or.Solver = "trivial"
		} else {
			var mts []*Term
			for _, in := range j.fr.Exec.inputs {
				mts = append(mts, leafTerms(in.T)...)
				mts = append(mts, in.Elems...)
				if in.LenVar != nil {
					mts = append(mts, in.LenVar)
				}
			}
			pm := map[[2]int]*Term{}
			reachP, condP := o.Reach, o.Cond
			if os.Getenv("SHVC_NOPOL") == "" {
				reachP, condP = c.Polarize(o.Reach, true, pm), c.Polarize(o.Cond, false, pm)
			}
			ts, insts := j.fr.Exec.instantiateLoopFrames([]*Term{reachP, c.Not(condP)})
			j.or.Query = c.Query(append(append(ts, insts...), j.fr.Exec.inputDefs...), true, mts)
		}
	}
	sem := make(chan struct{}, sv.Parallel)
	done := make(chan struct{})
	n := 0
	for _, j := range jobs {
		if j.or.Status != "" {
			continue
		}
		n++
		go func(j job) {
			sem <- struct{}{}
			defer func() { <-sem; done <- struct{}{} }()
			t0 := time.Now()
			r := sv.Run(j.or.Query, j.or.O.Cover)
			j.or.TimeS = time.Since(t0).Seconds()
			j.or.Solver = r.Solver
			j.or.Output = r.Output
			if j.or.O.Cover {
				switch r.Verdict {
				case "sat":
					j.or.Status = "proved"
				case "unsat":
					j.or.Status = "failed"
				default:
					j.or.Status = "unknown"
				}
				return
			}
			switch r.Verdict {
			case "unsat":
				j.or.Status = "proved"
			case "sat":
				j.or.Status = "failed"
				j.or.Model = r.Model
			default:
				j.or.Status = "unknown"
				// diagnostic: a model of the query without the quantified background facts is a candidate
				// counterexample (it may violate a dropped fact); the verdict stays "unknown"
				if strings.Contains(j.or.Query, "(assert (forall") {
					var keep []string
					for _, ln := range strings.Split(j.or.Query, "\n") {
						if !strings.HasPrefix(ln, "(assert (forall") {
							keep = append(keep, ln)
						}
					}
					quick := &Solvers{Timeout: 5 * time.Second, Parallel: 1}
					if rr := quick.Run(strings.Join(keep, "\n"), false); rr.Verdict == "sat" {
						j.or.Model = rr.Model
						j.or.Output += "\ncandidate counterexample found after dropping quantified background facts"
					}
				}
			}
		}(j)
	}
	for i := 0; i < n; i++ {
		<-done
	}
}

func leafTerms(t *Term) []*Term {
	if t.kind == kVar {
		return []*Term{t}
	}
	var out []*Term
	for _, a := range t.args {
		out = append(out, leafTerms(a)...)
	}
	return out
}

func describeType(t types.Type) string { return typeName(t) }

var _ = ssa.NaiveForm
