package main

// Models of library functions (exact where stated, otherwise listed as assumptions).

import (
	"fmt"
	"go/token"
	"go/types"
	"strings"

	"golang.org/x/tools/go/ssa"
)

var modelledNames = map[string]bool{
	"math.IsNaN": true, "math.IsInf": true, "math.Float64bits": true, "math.Float32bits": true,
	"math.Float64frombits": true, "math.Float32frombits": true, "math.Abs": true, "math.Floor": true, "math.Ceil": true,
	"math.Trunc": true, "math.Sqrt": true, "math.Inf": true, "math.NaN": true, "math.Max": true, "math.Min": true,
	"(encoding/binary.littleEndian).Uint16": true, "(encoding/binary.littleEndian).Uint32": true, "(encoding/binary.littleEndian).Uint64": true,
	"(encoding/binary.littleEndian).PutUint16": true, "(encoding/binary.littleEndian).PutUint32": true, "(encoding/binary.littleEndian).PutUint64": true,
	"(encoding/binary.littleEndian).AppendUint16": true, "(encoding/binary.littleEndian).AppendUint32": true, "(encoding/binary.littleEndian).AppendUint64": true,
	"strings.HasPrefix": true, "strings.HasSuffix": true, "bytes.Equal": true,
	"math/bits.TrailingZeros32": false,
}

func (eng *Engine) isModelled(name string) bool {
	return modelledNames[name] || strings.HasPrefix(name, "sync/atomic.")
}

var pureExternalPrefixes = []string{"fmt.", "errors.", "log.", "(*log.Logger).", "strconv.", "time.Now", "time.Since", "time.Unix", "(time.Time).", "(time.Duration).",
	"math.", "strings.", "unicode.", "unicode/utf8.", "os.Getpid", "runtime.", "hash/crc32.", "context.", "math/bits.",
	"github.com/zeebo/xxh3.", "(*pgregory.net/rand.Rand).", "pgregory.net/rand.", "(*strings.Builder).String", "path/filepath.", "reflect.TypeOf",
	"bytes.Index", "bytes.Contains", "bytes.HasPrefix", "bytes.HasSuffix", "bytes.Compare", "bytes.LastIndex", "bytes.Count",
	"encoding/binary.ReadUvarint", "encoding/binary.ReadVarint", "time.Sleep", "time.After", "time.Until", "time.AfterFunc", "time.NewTimer", "time.NewTicker", "(*time.Timer).Stop", "(*time.Timer).Reset", "(*time.Ticker).Stop"}

func (eng *Engine) isPureExternal(name string) bool {
	for _, p := range pureExternalPrefixes {
		if strings.HasPrefix(name, p) {
			return true
		}
	}
	return false
}

// deterministic pure externals: the same arguments give the same result (unlike time.Now, random sources)
func (eng *Engine) isDeterministicExternal(name string) bool {
	for _, p := range []string{"(time.Time).", "(time.Duration).", "time.Unix", "strings.", "math.", "unicode.", "unicode/utf8.", "math/bits.", "hash/crc32.", "github.com/zeebo/xxh3.", "path/filepath."} {
		if strings.HasPrefix(name, p) {
			return true
		}
	}
	return false
}

func (eng *Engine) isNoop(name string) bool {
	switch name {
	case "(*sync.Mutex).Lock", "(*sync.Mutex).Unlock", "(*sync.RWMutex).Lock", "(*sync.RWMutex).Unlock", "(*sync.RWMutex).RLock", "(*sync.RWMutex).RUnlock",
		"(*sync.WaitGroup).Done", "(*sync.WaitGroup).Add", "(*sync.Cond).Broadcast", "(*sync.Cond).Signal", "(*sync.Mutex).TryLock", "(*sync.RWMutex).TryLock", "(*sync.RWMutex).TryRLock":
		return true
	}
	return false
}

func (eng *Engine) returnsNonNil(name string) bool {
	switch name {
	case "fmt.Errorf", "errors.New":
		return true
	}
	return false
}

func (e *Exec) fpUnary(op string, a *Term) *Term { return e.c.App(op, a.sort, a) }

// atomicModel: sync/atomic package-level functions as plain loads and stores (sequential semantics).
func (e *Exec) atomicModel(st *State, ins ssa.Instruction, name string, args []Val, rtyp types.Type) (Val, bool) {
	c := e.c
	op := strings.TrimPrefix(name, "sync/atomic.")
	call, ok := ins.(ssa.CallInstruction)
	if !ok || len(args) == 0 {
		return Val{}, false
	}
	pt, ok := call.Common().Args[0].Type().Underlying().(*types.Pointer)
	if !ok {
		return Val{}, false
	}
	et := pt.Elem()
	for _, a := range args[1:] {
		if a.T == nil {
			return Val{}, false
		}
	}
	e.assumed["sync/atomic operations treated as plain loads/stores (sequential semantics)"] = true
	switch {
	case strings.HasPrefix(op, "Load"):
		return e.load(st, args[0], et), true
	case strings.HasPrefix(op, "Store"):
		e.store(st, args[0], et, args[1].T)
		return Val{}, true
	case strings.HasPrefix(op, "Add"):
		cur := e.load(st, args[0], et).T
		nv := e.wrap(c.Add(cur, args[1].T), et)
		e.store(st, args[0], et, nv)
		return Val{T: nv}, true
	case strings.HasPrefix(op, "Swap"):
		cur := e.load(st, args[0], et).T
		e.store(st, args[0], et, args[1].T)
		return Val{T: cur}, true
	case strings.HasPrefix(op, "CompareAndSwap"):
		cur := e.load(st, args[0], et).T
		eq := c.Same(cur, args[1].T)
		e.store(st, args[0], et, c.Ite(eq, args[2].T, cur))
		return Val{T: eq}, true
	}
	return Val{}, false
}

func (e *Exec) modelled(st *State, ins ssa.Instruction, name string, args []Val, rtyp types.Type) (Val, bool) {
	c := e.c
	if strings.HasPrefix(name, "sync/atomic.") && (e.pure == 0 || strings.HasPrefix(name, "sync/atomic.Load")) {
		if v, ok := e.atomicModel(st, ins, name, args, rtyp); ok {
			return v, true
		}
	}
	if !modelledNames[name] {
		return Val{}, false
	}
	real := len(args) > 0 && args[0].T != nil && args[0].T.sort == "Real"
	switch name {
	case "math.IsNaN":
		if real {
			return Val{T: c.False()}, true
		}
		return Val{T: c.App("fp.isNaN", "Bool", args[0].T)}, true
	case "math.IsInf":
		if real {
			return Val{T: c.False()}, true
		}
		sgn := args[1].T
		inf := c.App("fp.isInfinite", "Bool", args[0].T)
		pos := c.App("fp.isPositive", "Bool", args[0].T)
		return Val{T: c.And(inf, c.Or(c.Eq(sgn, c.Int(0)), c.And(c.Gt(sgn, c.Int(0)), pos), c.And(c.Lt(sgn, c.Int(0)), c.Not(pos))))}, true
	case "math.Inf":
		if e.tm.floatReal {
			e.fail("math.Inf in real mode")
		}
		return Val{T: c.Ite(c.Ge(args[0].T, c.Int(0)), c.Lit("(_ +oo 11 53)", sortFP64), c.Lit("(_ -oo 11 53)", sortFP64))}, true
	case "math.NaN":
		if e.tm.floatReal {
			e.fail("math.NaN in real mode")
		}
		return Val{T: c.Lit("(_ NaN 11 53)", sortFP64)}, true
	case "math.Abs":
		if real {
			return Val{T: c.Ite(c.App(">=", "Bool", args[0].T, c.Lit("0.0", "Real")), args[0].T, c.App("-", "Real", args[0].T))}, true
		}
		return Val{T: e.fpUnary("fp.abs", args[0].T)}, true
	case "math.Floor", "math.Ceil", "math.Trunc":
		if real {
			fl := c.App("to_real", "Real", c.App("to_int", "Int", args[0].T))
			switch name {
			case "math.Floor":
				return Val{T: fl}, true
			case "math.Ceil":
				return Val{T: c.App("-", "Real", c.App("to_real", "Real", c.App("to_int", "Int", c.App("-", "Real", args[0].T))))}, true
			}
			e.fail("math.Trunc in real mode")
		}
		rm := map[string]string{"math.Floor": "RTN", "math.Ceil": "RTP", "math.Trunc": "RTZ"}[name]
		return Val{T: c.App("fp.roundToIntegral", args[0].T.sort, c.Lit(rm, "RoundingMode"), args[0].T)}, true
	case "math.Sqrt":
		if real {
			e.fail("math.Sqrt in real mode")
		}
		return Val{T: c.App("fp.sqrt", args[0].T.sort, c.Lit("RNE", "RoundingMode"), args[0].T)}, true
	case "math.Max", "math.Min":
		// NaN-propagating, as in the Go library (signed zeros ignored)
		a, b := args[0].T, args[1].T
		if real {
			less := c.App("<", "Bool", a, b)
			if name == "math.Max" {
				return Val{T: c.Ite(less, b, a)}, true
			}
			return Val{T: c.Ite(less, a, b)}, true
		}
		nan := c.Lit("(_ NaN 11 53)", sortFP64)
		var pick *Term
		if name == "math.Max" {
			pick = c.Ite(c.App("fp.gt", "Bool", a, b), a, b)
		} else {
			pick = c.Ite(c.App("fp.lt", "Bool", a, b), a, b)
		}
		e.assumed["math.Max/Min modelled without the signed-zero and infinity special cases"] = true
		return Val{T: c.Ite(c.Or(c.App("fp.isNaN", "Bool", a), c.App("fp.isNaN", "Bool", b)), nan, pick)}, true
	case "math.Float64bits", "math.Float32bits", "math.Float64frombits", "math.Float32frombits":
		fn := "f." + strings.TrimPrefix(name, "math.")
		var inv string
		var as, rs string
		switch name {
		case "math.Float64bits":
			inv, as, rs = "f.Float64frombits", e.tm.Sort(types.Typ[types.Float64]), "Int"
		case "math.Float32bits":
			inv, as, rs = "f.Float32frombits", e.tm.Sort(types.Typ[types.Float32]), "Int"
		case "math.Float64frombits":
			inv, as, rs = "f.Float64bits", "Int", e.tm.Sort(types.Typ[types.Float64])
		case "math.Float32frombits":
			inv, as, rs = "f.Float32bits", "Int", e.tm.Sort(types.Typ[types.Float32])
		}
		c.DeclareFun(fn, fmt.Sprintf("(declare-fun %s (%s) %s)", fn, as, rs))
		c.DeclareFun(inv, fmt.Sprintf("(declare-fun %s (%s) %s)", inv, rs, as))
		t := c.App(fn, rs, args[0].T)
		if !t.bound {
			c.AddFact(t, c.Same(c.App(inv, as, t), args[0].T))
			if rs == "Int" {
				bits := uint(64)
				if name == "math.Float32bits" {
					bits = 32
				}
				c.AddFact(t, c.And(c.Le(c.Int(0), t), c.Lt(t, c.BigInt(pow2(bits)))))
			}
		}
		e.assumed["math.Float*bits/frombits treated as an uninterpreted bijection"] = true
		return Val{T: t}, true
	case "strings.HasPrefix", "strings.HasSuffix":
		e.tm.declStr()
		fn := "str.prefixof"
		if name == "strings.HasSuffix" {
			fn = "str.suffixof"
		}
		c.DeclareFun(fn, fmt.Sprintf("(declare-fun %s (Str Str) Bool)", fn))
		t := c.App(fn, "Bool", args[0].T, args[1].T)
		if !t.bound {
			c.AddFact(t, c.Implies(t, c.Le(e.strLen(args[1].T), e.strLen(args[0].T))))
			c.AddFact(t, c.Implies(c.Eq(args[0].T, args[1].T), t))
		}
		return Val{T: t}, true
	case "bytes.Equal":
		a := e.strOfSlice(st, args[0].T, types.Typ[types.Byte])
		b := e.strOfSlice(st, args[1].T, types.Typ[types.Byte])
		return Val{T: c.Eq(a, b)}, true
	}
	if strings.HasPrefix(name, "(encoding/binary.littleEndian).") {
		op := strings.TrimPrefix(name, "(encoding/binary.littleEndian).")
		// args[0] is the receiver
		byteT := types.Typ[types.Byte]
		mn, ms := e.memArr(byteT)
		var nbytes int
		switch {
		case strings.HasSuffix(op, "16"):
			nbytes = 2
		case strings.HasSuffix(op, "32"):
			nbytes = 4
		default:
			nbytes = 8
		}
		switch {
		case strings.HasPrefix(op, "Uint"):
			s := args[1].T
			e.check(st, "safe-index", ins, c.Le(c.Int(int64(nbytes)), e.tm.SliceLen(s)))
			return Val{T: e.leRead(st, s, nbytes)}, true
		case strings.HasPrefix(op, "PutUint"):
			s, v := args[1].T, args[2].T
			e.check(st, "safe-index", ins, c.Le(c.Int(int64(nbytes)), e.tm.SliceLen(s)))
			mem := e.heapGet(st, mn, ms)
			base, off := e.tm.SliceBase(s), e.tm.SliceOff(s)
			arr := c.Select(mem, base)
			for i := 0; i < nbytes; i++ {
				arr = c.Store(arr, c.Add(off, c.Int(int64(i))), c.Mod(c.Div(v, c.BigInt(pow2(uint(8*i)))), c.Int(256)))
			}
			e.frameCheck(st, mn, base)
			e.heapSet(st, mn, c.Store(mem, base, arr))
			return Val{}, true
		case strings.HasPrefix(op, "AppendUint"):
			// append(b, bytes...) with the little-endian bytes
			s, v := args[1].T, args[2].T
			mem := e.heapGet(st, mn, ms)
			base, off, ln, cp := e.tm.SliceBase(s), e.tm.SliceOff(s), e.tm.SliceLen(s), e.tm.SliceCap(s)
			n := c.Int(int64(nbytes))
			fits := c.Le(c.Add(ln, n), cp)
			nb := c.Fresh("append.base", "Int")
			e.assume(st, c.And(c.Gt(nb, st.allocTop), c.Gt(nb, c.Int(0))))
			st.allocTop = nb
			ncap := c.Fresh("append.cap", "Int")
			e.assume(st, c.And(c.Ge(ncap, c.Add(ln, n)), c.Le(ncap, c.Int(1<<40))))
			newBase := c.Ite(fits, base, nb)
			arr := c.Select(mem, base)
			for i := 0; i < nbytes; i++ {
				arr = c.Store(arr, c.Add(c.Add(off, ln), c.Int(int64(i))), c.Mod(c.Div(v, c.BigInt(pow2(uint(8*i)))), c.Int(256)))
			}
			e.frameCheckCond(st, mn, base, fits)
			saved := e.frameOff
			e.frameOff = true
			e.heapSet(st, mn, c.Store(mem, newBase, arr))
			e.frameOff = saved
			return Val{T: e.tm.MkSlice(newBase, off, c.Add(ln, n), c.Ite(fits, cp, ncap))}, true
		}
	}
	_ = token.NoPos
	return Val{}, false
}

// leRead: little-endian value of the first n bytes of slice s.
func (e *Exec) leRead(st *State, s *Term, n int) *Term {
	c := e.c
	mn, ms := e.memArr(types.Typ[types.Byte])
	arr := c.Select(e.heapGet(st, mn, ms), e.tm.SliceBase(s))
	off := e.tm.SliceOff(s)
	var sum *Term = c.Int(0)
	var whole *Term // the value v whose little-endian bytes these are, when they were written by PutUint*/AppendUint*
	same := true
	for i := 0; i < n; i++ {
		b := e.typed(c.Select(arr, c.Add(off, c.Int(int64(i)))), types.Typ[types.Byte])
		sum = c.Add(sum, c.Mul(b, c.BigInt(pow2(uint(8*i)))))
		// b == (v div 256^i) mod 256 ?
		sb := strip(b)
		var v *Term
		if sb.kind == kApp && sb.op == "mod" && len(sb.args) == 2 {
			if m, ok := litInt(sb.args[1]); ok && m.IsInt64() && m.Int64() == 256 {
				d := strip(sb.args[0])
				if i == 0 {
					v = sb.args[0]
				} else if d.kind == kApp && d.op == "div" && len(d.args) == 2 {
					if q, ok := litInt(d.args[1]); ok && q.Cmp(pow2(uint(8*i))) == 0 {
						v = d.args[0]
					}
				}
			}
		}
		if v == nil || (whole != nil && v != whole) {
			same = false
		} else {
			whole = v
		}
	}
	if same && whole != nil {
		// reading back exactly the bytes one Put wrote: the value itself (modulo the width read)
		return c.Mod(whole, c.BigInt(pow2(uint(8*n))))
	}
	return sum
}
