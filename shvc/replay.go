package main

// Counterexample replay: the model of a failed obligation is turned into a Go
// test that calls the real function (injected with `go test -overlay`, nothing
// is written to /repo) and re-evaluates the violated clause.

import (
	"encoding/json"
	"fmt"
	"go/types"
	"math/big"
	"os"
	"os/exec"
	"path/filepath"
	"sort"
	"strings"
	"time"
)

func slug(s string) string {
	var sb strings.Builder
	for _, r := range s {
		if r >= 'a' && r <= 'z' || r >= 'A' && r <= 'Z' || r >= '0' && r <= '9' || r == '_' || r == '-' {
			sb.WriteRune(r)
		} else {
			sb.WriteByte('_')
		}
	}
	out := sb.String()
	if len(out) > 120 {
		out = out[:120]
	}
	return out
}

func (eng *Engine) writeReplay(root, prop string, v *violation, frs []*FuncResult) {
	if os.Getenv("SHVC_NO_REPLAY") != "" {
		v.replay = "(selftest)"
		return
	}
	dir := filepath.Join(root, "replay", prop, slug(v.obligation))
	os.MkdirAll(dir, 0o755)
	v.replay = filepath.Join(dir, "replay.json")
	rec := map[string]interface{}{"property": prop, "obligation": v.obligation, "reason": v.reason}
	var or *OblResult
	var fr *FuncResult
	for _, f := range frs {
		for _, o := range f.Obls {
			if o.Name == v.obligation {
				or, fr = o, f
			}
		}
	}
	if or == nil {
		rec["outcome"] = "no-failing-input-found"
		rec["detail"] = "obligation is not a solver query (missing or vacuous)"
		writeJSON(v.replay, rec)
		return
	}
	os.WriteFile(filepath.Join(dir, "query.smt2"), []byte(ExactQuery(or.Query)), 0o644)
	os.WriteFile(filepath.Join(dir, "solver.out"), []byte(or.Output), 0o644)
	rec["status"] = or.Status
	rec["solver"] = or.Solver
	rec["at"] = or.PosStr
	rec["solver_output_head"] = firstLines(or.Output, 12)
	if or.Status != "failed" || len(or.Model) == 0 {
		// no model to replay: a history registered for this obligation (known_findings.json) is replayed instead
		if eng.runWitness(root, dir, v, rec) {
			rec["detail"] = "no solver produced a model (" + or.Status + "); the registered witness history was replayed"
			writeJSON(v.replay, rec)
			return
		}
		rec["outcome"] = "no-failing-input-found"
		rec["detail"] = "no solver produced a model (" + or.Status + ")"
		writeJSON(v.replay, rec)
		return
	}
	rec["model"] = or.Model
	test, why := func() (t, w string) {
		// a model the generator cannot turn into a test is "no failing input", never a crash of the check
		defer func() {
			if r := recover(); r != nil {
				t, w = "", fmt.Sprintf("replay generator failed: %v", r)
			}
		}()
		return eng.genReplayTest(fr, or)
	}()
	if test == "" && eng.runWitness(root, dir, v, rec) {
		writeJSON(v.replay, rec)
		return
	}
	if test == "" {
		rec["outcome"] = "no-failing-input-found"
		rec["detail"] = "model not replayable: " + why
		writeJSON(v.replay, rec)
		return
	}
	pkgDirAbs := ""
	for _, p := range eng.pkgs {
		if p.PkgPath == fr.Spec.PkgPath {
			pkgDirAbs = pkgDir(p)
		}
	}
	testPath := filepath.Join(dir, "replay_test.go")
	os.WriteFile(testPath, []byte(test), 0o644)
	ov := map[string]map[string]string{"Replace": {filepath.Join(pkgDirAbs, "zz_verif_replay_test.go"): testPath}}
	sqliteOverlay(eng.repo, ov["Replace"])
	// the spec overlay (wrappers used by the test) must be visible too
	for path, src := range eng.overlay {
		if filepath.Dir(path) == pkgDirAbs && strings.HasSuffix(path, overlayFileName) {
			sp := filepath.Join(dir, "specs_gen.go")
			os.WriteFile(sp, src, 0o644)
			ov["Replace"][path] = sp
		}
	}
	ovPath := filepath.Join(dir, "overlay.json")
	writeJSON(ovPath, ov)
	rel, _ := filepath.Rel(eng.repo, pkgDirAbs)
	cmd := exec.Command("bash", "-c", fmt.Sprintf("ulimit -v 8000000; cd %s && go test -tags verif -overlay %s -vet=off -count=1 -timeout 60s -run 'TestShvcReplay' ./%s/", eng.repo, ovPath, rel))
	cmd.Env = append(os.Environ(), "GOFLAGS=-mod=mod", "GOPROXY=off")
	t0 := time.Now()
	out, err := cmd.CombinedOutput()
	rec["replay_cmd"] = fmt.Sprintf("cd %s && GOFLAGS=-mod=mod GOPROXY=off go test -tags verif -overlay %s -vet=off -count=1 -timeout 60s -run TestShvcReplay ./%s/", eng.repo, ovPath, rel)
	rec["replay_output_tail"] = lastLines(string(out), 25)
	rec["replay_s"] = round3(time.Since(t0).Seconds())
	switch {
	case strings.Contains(string(out), "SHVC-REPLAY: REPRODUCED"):
		rec["outcome"] = "reproduced"
		v.noInput = false
	case err == nil || strings.Contains(string(out), "SHVC-REPLAY: NOT-REPRODUCED"):
		rec["outcome"] = "no-failing-input-found"
		rec["detail"] = "the model does not reproduce on the real code (counterexample lives in an abstraction)"
	default:
		rec["outcome"] = "no-failing-input-found"
		rec["detail"] = "replay did not build or run"
	}
	writeJSON(v.replay, rec)
}

// runWitness: a failing obligation for which a hand-written witness test is registered in
// known_findings.json (the history that demonstrated the defect) is replayed with that test.
func (eng *Engine) runWitness(root, dir string, v *violation, rec map[string]interface{}) bool {
	for _, f := range loadFindings(root) {
		if f.Obligation != v.obligation || f.WitnessTest == "" {
			continue
		}
		src := filepath.Join(root, f.WitnessTest)
		ov := map[string]map[string]string{"Replace": {filepath.Join(eng.repo, f.WitnessPkg, "zz_verif_witness_test.go"): src}}
		sqliteOverlay(eng.repo, ov["Replace"])
		ovPath := filepath.Join(dir, "overlay.json")
		writeJSON(ovPath, ov)
		cmdline := fmt.Sprintf("cd %s && GOFLAGS=-mod=mod GOPROXY=off go test -overlay %s -vet=off -count=1 -timeout 120s -run TestShvcWitness ./%s/", eng.repo, ovPath, f.WitnessPkg)
		out, _ := exec.Command("bash", "-c", cmdline).CombinedOutput()
		rec["replay_cmd"] = cmdline
		rec["replay_kind"] = "registered witness history: " + f.Witness
		rec["replay_output_tail"] = lastLines(string(out), 25)
		if strings.Contains(string(out), "SHVC-WITNESS: REPRODUCED") {
			rec["outcome"] = "reproduced"
			v.noInput = false
			return true
		}
		rec["outcome"] = "no-failing-input-found"
		rec["detail"] = "the registered witness history does not fail on this tree"
		return true
	}
	return false
}

// sqliteOverlay: the pinned tree ships internal/sqlite/sqlite0/sqlite3.c as an empty file, so test binaries of the
// packages that link SQLite (metadata) do not build. If an amalgamation is present on the machine it is supplied
// through the overlay (the repository is not touched); otherwise such replays end as "did not build".
func sqliteOverlay(repo string, repl map[string]string) {
	target := filepath.Join(repo, "internal/sqlite/sqlite0/sqlite3.c")
	if fi, err := os.Stat(target); err != nil || fi.Size() != 0 {
		return
	}
	for _, dir := range []string{"/usr/lib/node_modules/better-sqlite3/deps/sqlite3", "/usr/local/lib/node_modules/better-sqlite3/deps/sqlite3"} {
		if _, err := os.Stat(filepath.Join(dir, "sqlite3.c")); err == nil {
			repl[target] = filepath.Join(dir, "sqlite3.c")
			if _, err := os.Stat(filepath.Join(dir, "sqlite3.h")); err == nil {
				repl[filepath.Join(repo, "internal/sqlite/sqlite0/sqlite3.h")] = filepath.Join(dir, "sqlite3.h")
			}
			return
		}
	}
}

func writeJSON(path string, v interface{}) {
	data, _ := json.MarshalIndent(v, "", " ")
	os.WriteFile(path, append(data, '\n'), 0o644)
}

func lastLines(s string, n int) string {
	ls := strings.Split(strings.TrimRight(s, "\n"), "\n")
	if len(ls) > n {
		ls = ls[len(ls)-n:]
	}
	return strings.Join(ls, "\n")
}

// parse an SMT integer value: "5", "(- 5)"
func smtInt(s string) (*big.Int, bool) {
	s = strings.TrimSpace(s)
	neg := false
	if strings.HasPrefix(s, "(-") {
		neg = true
		s = strings.TrimSpace(strings.TrimSuffix(strings.TrimPrefix(s, "(-"), ")"))
	}
	v, ok := new(big.Int).SetString(s, 10)
	if !ok {
		return nil, false
	}
	if neg {
		v.Neg(v)
	}
	return v, true
}

// goLiteral renders the model value of an input of a scalar type; ok=false when not representable.
func (eng *Engine) goLiteral(e *Exec, t *Term, ty types.Type, model map[string]string, qual types.Qualifier) (string, bool) {
	if b, ok := ty.Underlying().(*types.Basic); ok && b.Info()&types.IsString != 0 {
		return eng.stringLiteral(e, t, ty, model, qual)
	}
	switch u := ty.Underlying().(type) {
	case *types.Basic:
		val, ok := model[t.name]
		if !ok {
			return "", false
		}
		switch {
		case u.Info()&types.IsInteger != 0:
			v, ok := smtInt(val)
			if !ok {
				return "", false
			}
			return fmt.Sprintf("%s(%s)", types.TypeString(ty, qual), v.String()), true
		case u.Info()&types.IsBoolean != 0:
			return fmt.Sprintf("%s(%s)", types.TypeString(ty, qual), val), true
		case u.Info()&types.IsFloat != 0:
			lit, ok := fpModelToGo(val, u.Kind() == types.Float32)
			if !ok {
				return "", false
			}
			return fmt.Sprintf("%s(%s)", types.TypeString(ty, qual), lit), true
		}
	case *types.Pointer:
		in := eng.inputFor(e, t)
		if in == nil || in.Pointee == nil || t.kind != kVar {
			return "", false
		}
		ref, ok := smtInt(model[t.name])
		if !ok {
			return "", false
		}
		if ref.Sign() == 0 {
			return "(" + types.TypeString(ty, qual) + ")(nil)", true
		}
		l, ok := eng.goLiteral(e, in.Pointee, u.Elem(), model, qual)
		if !ok {
			return "", false
		}
		return "&" + l, true
	case *types.Slice:
		in := eng.inputFor(e, t)
		s := strip(t)
		if in == nil || len(in.Elems) == 0 || s.kind != kApp || len(s.args) != 4 {
			return "", false
		}
		get := func(a *Term) (*big.Int, bool) {
			if a.kind != kVar {
				return nil, false
			}
			return smtInt(model[a.name])
		}
		base, ok0 := get(s.args[0])
		ln, ok1 := get(s.args[2])
		cp, ok2 := get(s.args[3])
		if !ok0 || !ok1 || !ok2 || ln.Sign() < 0 || !ln.IsInt64() || ln.Int64() > 4096 {
			return "", false
		}
		ts := types.TypeString(ty, qual)
		if base.Sign() == 0 && ln.Sign() == 0 {
			return ts + "(nil)", true
		}
		capv := ln.Int64()
		if cp.IsInt64() && cp.Int64() > capv && cp.Int64() <= 8192 {
			capv = cp.Int64()
		}
		var sb strings.Builder
		fmt.Fprintf(&sb, "func() %s { s := make(%s, %d, %d)", ts, ts, ln.Int64(), capv)
		for k := 0; k < int(ln.Int64()) && k < len(in.Elems); k++ {
			fake := map[string]string{in.Elems[k].name: model[in.Elems[k].name]}
			l, ok := eng.goLiteral(e, in.Elems[k], u.Elem(), fake, qual)
			if !ok {
				return "", false
			}
			fmt.Fprintf(&sb, "; s[%d] = %s", k, l)
		}
		sb.WriteString("; return s }()")
		return sb.String(), true
	case *types.Struct:
		s := strip(t)
		if s.kind != kApp || !strings.HasPrefix(s.op, "mk-") {
			return "", false
		}
		var parts []string
		for i := 0; i < u.NumFields(); i++ {
			l, ok := eng.goLiteral(e, s.args[i], u.Field(i).Type(), model, qual)
			if !ok {
				continue // left at its zero value: the replay may then fail to reproduce, it cannot mis-report
			}
			if u.Field(i).Name() == "_" {
				continue
			}
			parts = append(parts, u.Field(i).Name()+": "+l)
		}
		return types.TypeString(ty, qual) + "{" + strings.Join(parts, ", ") + "}", true
	}
	return "", false
}

func (eng *Engine) stringLiteral(e *Exec, t *Term, ty types.Type, model map[string]string, qual types.Qualifier) (string, bool) {
	in := eng.inputFor(e, t)
	if in == nil || in.LenVar == nil {
		return "", false
	}
	ln, ok := smtInt(model[in.LenVar.name])
	if !ok || ln.Sign() < 0 || !ln.IsInt64() || ln.Int64() > 4096 {
		return "", false
	}
	var bs []string
	for k := 0; k < int(ln.Int64()); k++ {
		b := big.NewInt(0)
		if k < len(in.Elems) {
			if v, ok := smtInt(model[in.Elems[k].name]); ok {
				b = v
			}
		}
		bs = append(bs, b.String())
	}
	return fmt.Sprintf("%s(string([]byte{%s}))", types.TypeString(ty, qual), strings.Join(bs, ", ")), true
}

// inputFor: the input whose symbolic value is t.
func (eng *Engine) inputFor(e *Exec, t *Term) *inputVar {
	for i := range e.inputs {
		if e.inputs[i].T == t {
			return &e.inputs[i]
		}
	}
	return nil
}

// fpModelToGo converts "(fp #b0 #b... #b...)" / "(_ NaN 11 53)" etc. to a Go expression.
func fpModelToGo(val string, is32 bool) (string, bool) {
	val = strings.TrimSpace(val)
	switch {
	case strings.HasPrefix(val, "(_ NaN"):
		return "math.NaN()", true
	case strings.HasPrefix(val, "(_ +oo"):
		return "math.Inf(1)", true
	case strings.HasPrefix(val, "(_ -oo"):
		return "math.Inf(-1)", true
	case strings.HasPrefix(val, "(_ +zero"):
		return "0.0", true
	case strings.HasPrefix(val, "(_ -zero"):
		return "math.Copysign(0, -1)", true
	}
	if strings.HasPrefix(val, "(fp ") {
		f := strings.Fields(strings.TrimSuffix(strings.TrimPrefix(val, "(fp "), ")"))
		if len(f) != 3 {
			return "", false
		}
		bits := ""
		for _, p := range f {
			switch {
			case strings.HasPrefix(p, "#b"):
				bits += p[2:]
			case strings.HasPrefix(p, "#x"):
				for _, h := range p[2:] {
					n, _ := new(big.Int).SetString(string(h), 16)
					bits += fmt.Sprintf("%04b", n.Int64())
				}
			default:
				return "", false
			}
		}
		n, ok := new(big.Int).SetString(bits, 2)
		if !ok {
			return "", false
		}
		if is32 {
			return fmt.Sprintf("float64(math.Float32frombits(%d))", n.Uint64()), true
		}
		return fmt.Sprintf("math.Float64frombits(%d)", n.Uint64()), true
	}
	// real-mode value
	if strings.HasPrefix(val, "(/") || strings.ContainsAny(val, "0123456789") {
		r := strings.NewReplacer("(", "", ")", "", "/", " ").Replace(val)
		f := strings.Fields(r)
		neg := false
		var nums []string
		for _, x := range f {
			if x == "-" {
				neg = !neg
				continue
			}
			nums = append(nums, x)
		}
		s := ""
		switch len(nums) {
		case 1:
			s = nums[0]
		case 2:
			s = "(" + nums[0] + "/" + nums[1] + ")"
		default:
			return "", false
		}
		if neg {
			s = "-" + s
		}
		return s, true
	}
	return "", false
}

// genReplayTest builds a test for functions whose inputs are scalars or by-value structs of scalars.
func (eng *Engine) genReplayTest(fr *FuncResult, or *OblResult) (string, string) {
	sp := fr.Spec
	if sp.IsProc {
		return "", "procs (lemmas over contracts) have no direct replay"
	}
	fn := sp.Fn
	e := fr.Exec
	var pkg *types.Package
	if fn.Pkg != nil {
		pkg = fn.Pkg.Pkg
	}
	if pkg == nil {
		return "", "no package"
	}
	qual := func(p *types.Package) string {
		if p == pkg {
			return ""
		}
		return p.Name()
	}
	recv := fn.Signature.Recv() != nil
	var argLits []string
	var argNames []string
	for i, in := range e.inputs {
		l, ok := eng.goLiteral(e, in.T, in.Typ, or.Model, qual)
		if !ok {
			return "", fmt.Sprintf("input %s of type %s is not a scalar/by-value struct", in.Name, in.Typ)
		}
		argLits = append(argLits, l)
		argNames = append(argNames, fmt.Sprintf("a%d", i))
	}
	// which clause failed?
	kind := or.O.Kind
	var sb strings.Builder
	sb.WriteString("//go:build verif\n\npackage " + pkg.Name() + "\n\nimport (\n\t\"fmt\"\n\t\"math\"\n\t\"testing\"\n)\n\nvar _ = math.NaN\nvar _ = fmt.Sprint\n\n")
	sb.WriteString("// replay of " + or.Name + "\nfunc TestShvcReplay(t *testing.T) {\n")
	for i, l := range argLits {
		fmt.Fprintf(&sb, "\t%s := %s\n", argNames[i], l)
	}
	nres := fn.Signature.Results().Len()
	var resNames []string
	for i := 0; i < nres; i++ {
		resNames = append(resNames, fmt.Sprintf("r%d", i))
	}
	call := fn.Name() + "(" + strings.Join(argNames, ", ") + ")"
	if recv {
		if len(argNames) == 0 {
			return "", "receiver not modelled"
		}
		call = argNames[0] + "." + fn.Name() + "(" + strings.Join(argNames[1:], ", ") + ")"
	}
	sb.WriteString("\tpanicked := false\n")
	for _, r := range resNames {
		_ = r
	}
	if nres > 0 {
		for i := 0; i < nres; i++ {
			fmt.Fprintf(&sb, "\tvar %s %s\n", resNames[i], types.TypeString(fn.Signature.Results().At(i).Type(), qual))
		}
	}
	sb.WriteString("\tfunc() {\n\t\tdefer func() {\n\t\t\tif r := recover(); r != nil {\n\t\t\t\tpanicked = true\n\t\t\t\tfmt.Println(\"panic:\", r)\n\t\t\t}\n\t\t}()\n")
	if nres > 0 {
		fmt.Fprintf(&sb, "\t\t%s = %s\n", strings.Join(resNames, ", "), call)
	} else {
		fmt.Fprintf(&sb, "\t\t%s\n", call)
	}
	sb.WriteString("\t}()\n")
	// requires must hold for the model to be a legal input
	for _, cl := range sp.Requires {
		var as []string
		for _, p := range cl.Params {
			if p.Kind != pkParam || p.Index >= len(argNames) {
				return "", "requires clause not executable in a test"
			}
			as = append(as, argNames[p.Index])
		}
		fmt.Fprintf(&sb, "\tif !%s(%s) {\n\t\tfmt.Println(\"SHVC-REPLAY: NOT-REPRODUCED (model violates requires %s)\")\n\t\treturn\n\t}\n", cl.WrapperName, strings.Join(as, ", "), cl.Label)
	}
	switch {
	case strings.HasPrefix(kind, "safe") || kind == "nooverflow":
		if kind == "nooverflow" {
			return "", "overflow obligations are not replayed"
		}
		sb.WriteString("\tif panicked {\n\t\tfmt.Println(\"SHVC-REPLAY: REPRODUCED (run-time panic)\")\n\t\tt.Fail()\n\t\treturn\n\t}\n\tfmt.Println(\"SHVC-REPLAY: NOT-REPRODUCED\")\n")
	case kind == "post":
		label := strings.TrimPrefix(or.O.Name, "post:")
		var cl *Clause
		for i := range sp.Ensures {
			if sp.Ensures[i].Label == label {
				cl = &sp.Ensures[i]
			}
		}
		if cl == nil {
			return "", "clause not found"
		}
		if strings.Contains(cl.Go, "__old") || strings.Contains(cl.Go, "__forall") || strings.Contains(cl.Go, "__exists") {
			return "", "clause with old()/quantifiers is not executable"
		}
		var as []string
		for _, p := range cl.Params {
			switch {
			case p.Kind == pkParam && p.Index < len(argNames):
				as = append(as, argNames[p.Index])
			case p.Kind == pkResult && p.Index < len(resNames):
				as = append(as, resNames[p.Index])
			default:
				return "", "clause speaks about calls or locals inside the function: not observable from a test"
			}
		}
		fmt.Fprintf(&sb, "\tif panicked {\n\t\tfmt.Println(\"SHVC-REPLAY: NOT-REPRODUCED (panic instead of return)\")\n\t\treturn\n\t}\n")
		fmt.Fprintf(&sb, "\tfmt.Println(\"inputs:\", %s, \"results:\", %s)\n", strings.Join(append([]string{"\"\""}, argNames...), ", "), strings.Join(append([]string{"\"\""}, resNames...), ", "))
		fmt.Fprintf(&sb, "\tif !%s(%s) {\n\t\tfmt.Println(\"SHVC-REPLAY: REPRODUCED (ensures %s is false on the real code)\")\n\t\tt.Fail()\n\t\treturn\n\t}\n\tfmt.Println(\"SHVC-REPLAY: NOT-REPRODUCED\")\n", cl.WrapperName, strings.Join(as, ", "), label)
	default:
		return "", "obligation kind " + kind + " inside the body is not replayed (the function is called, but the mid-function condition is not observable)"
	}
	sb.WriteString("}\n")
	_ = sort.Strings
	return sb.String(), ""
}
