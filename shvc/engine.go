package main

// Engine: loads /repo packages, reads contract files, generates the spec
// overlay (one wrapper function per clause), builds SSA, and offers the static
// analyses the executor needs.

import (
	"encoding/json"
	"strconv"
	"bytes"
	"fmt"
	"go/ast"
	"go/parser"
	"go/printer"
	"go/token"
	"go/types"
	"os"
	"path/filepath"
	"sort"
	"strings"

	"golang.org/x/tools/go/packages"
	"golang.org/x/tools/go/ssa"
	"golang.org/x/tools/go/ssa/ssautil"
)

const contractFileName = "zz_verif_contracts.go"
const overlayFileName = "zz_verif_specs_gen.go"

type Engine struct {
	repo     string
	fset     *token.FileSet
	pkgs     []*packages.Package
	allPkgs  map[string]*packages.Package
	prog     *ssa.Program
	cfiles   map[string]*ContractFile // by package path
	specs    map[*ssa.Function]*FuncSpec
	specList []*FuncSpec
	overlay  map[string][]byte
	drift    []string
	// wrappers of mid-function clauses that did not type-check in the full load (the code they are anchored in changed
	// shape): regenerated without them, the clauses are reported as lost anchors
	badWrappers map[string]string
	baseNames   map[string]FuncNames
	curNames    map[string]FuncNames
	renameNotes []string
	recSpec  map[*ssa.Function]bool

	nodeAt     map[*ssa.Function]map[token.Pos]ast.Node
	callOrd    map[*ssa.Function]map[ssa.Instruction]int
	escCache   map[*ssa.Function]map[*ssa.Alloc]bool
	mwCache    map[*ssa.Function]*modSet
	mwBusy     map[*ssa.Function]bool
	oldCache   map[*ssa.Function]bool
	inlCache   map[*ssa.Function]int
	declOf     map[*ssa.Function]*ast.FuncDecl
	tmForNames *TypeMap
	requested  map[string]bool
	inlineFails map[*ssa.Function]bool
	gnnCache   map[*ssa.Global]bool
}

const prelude = `
func __old[T any](x T) T { return x }
func __forall(lo, hi int, f func(int) bool) bool { panic("spec") }
func __exists(lo, hi int, f func(int) bool) bool { panic("spec") }
func __forallT[T any](f func(T) bool) bool { panic("spec") }
func __existsT[T any](f func(T) bool) bool { panic("spec") }
func __assert(label string, cond bool) {}
func __assume(cond bool) {}
func __mod[T any](p *T) {}
func __modall[T any](x T) {}
func __same[T any](a, b T) bool { panic("spec") }
func __cases(x int, vals ...int) bool { return true }
func __has[K comparable, V any](m map[K]V, k K) bool { _, ok := m[k]; return ok }
func __disjoint[A any, B any](a []A, b []B) bool { return true }
func __sorted[T any](s []T, less func(i, j int) bool) bool { panic("spec") }
`

func loadEngine(repo string, patterns []string, extraOverlay map[string][]byte) (*Engine, error) {
	eng := &Engine{repo: repo, cfiles: map[string]*ContractFile{}, specs: map[*ssa.Function]*FuncSpec{}, overlay: map[string][]byte{},
		nodeAt: map[*ssa.Function]map[token.Pos]ast.Node{}, callOrd: map[*ssa.Function]map[ssa.Instruction]int{},
		escCache: map[*ssa.Function]map[*ssa.Alloc]bool{}, mwCache: map[*ssa.Function]*modSet{}, mwBusy: map[*ssa.Function]bool{},
		oldCache: map[*ssa.Function]bool{}, inlCache: map[*ssa.Function]int{}, declOf: map[*ssa.Function]*ast.FuncDecl{}, inlineFails: map[*ssa.Function]bool{}}
	for k, v := range extraOverlay {
		eng.overlay[k] = v
	}
	// phase 0: dependencies of the requested packages that carry a contract file become roots as well,
	// so that callers are verified against the callee's contract and not its body
	cfg0 := &packages.Config{Mode: packages.NeedName | packages.NeedFiles | packages.NeedImports | packages.NeedDeps, Dir: repo, BuildFlags: []string{"-tags=verif"}, Overlay: eng.overlay}
	if p0, err := packages.Load(cfg0, patterns...); err == nil {
		have := map[string]bool{}
		eng.requested = map[string]bool{}
		for _, p := range p0 {
			have[p.PkgPath] = true
			eng.requested[p.PkgPath] = true
		}
		var extra []string
		packages.Visit(p0, nil, func(p *packages.Package) {
			if have[p.PkgPath] || !strings.HasPrefix(p.PkgPath, "github.com/VKCOM/statshouse/") {
				return
			}
			if d := pkgDir(p); d != "" {
				if _, err := os.Stat(filepath.Join(d, contractFileName)); err == nil {
					extra = append(extra, p.PkgPath)
					have[p.PkgPath] = true
				}
			}
		})
		sort.Strings(extra)
		patterns = append(append([]string{}, patterns...), extra...)
	}
	eng.badWrappers = map[string]string{}
retry:
	eng.drift = nil
	eng.renameNotes = nil
	eng.cfiles = map[string]*ContractFile{}
	for k := range eng.overlay {
		if strings.HasSuffix(k, overlayFileName) {
			delete(eng.overlay, k)
		}
	}
	// phase 1: roots only, for parameter names and local scopes
	cfg1 :=&packages.Config{Mode: packages.NeedName | packages.NeedFiles | packages.NeedCompiledGoFiles | packages.NeedImports | packages.NeedTypes | packages.NeedSyntax | packages.NeedTypesInfo | packages.NeedTypesSizes,
		Dir: repo, BuildFlags: []string{"-tags=verif"}, Overlay: eng.overlay, Fset: token.NewFileSet()}
	p1, err := packages.Load(cfg1, patterns...)
	if err != nil {
		return nil, err
	}
	for _, p := range p1 {
		for _, e := range p.Errors {
			return nil, fmt.Errorf("load %s: %v", p.PkgPath, e)
		}
		dir := pkgDir(p)
		cpath := filepath.Join(dir, contractFileName)
		if _, err := os.Stat(cpath); err != nil {
			continue
		}
		cf, err := parseContractFile(cpath)
		if err != nil {
			return nil, err
		}
		eng.cfiles[p.PkgPath] = cf
		src, err := eng.genOverlay(p, cf, cfg1.Fset)
		if err != nil {
			return nil, err
		}
		eng.overlay[filepath.Join(dir, overlayFileName)] = src
	}
	// phase 2: everything with bodies
	eng.fset = token.NewFileSet()
	cfg2 := &packages.Config{Mode: packages.LoadAllSyntax, Dir: repo, BuildFlags: []string{"-tags=verif"}, Overlay: eng.overlay, Fset: eng.fset}
	p2, err := packages.Load(cfg2, patterns...)
	if err != nil {
		return nil, err
	}
	for _, p := range p2 {
		for _, e := range p.Errors {
			// a type error inside the wrapper of a mid-function clause: drop that clause and load again
			if w, why := eng.wrapperOfError(e); w != "" && len(eng.badWrappers) < 16 {
				if _, seen := eng.badWrappers[w]; !seen {
					eng.badWrappers[w] = why
					goto retry
				}
			}
			return nil, fmt.Errorf("contract drift or load error in %s: %v", p.PkgPath, e)
		}
	}
	eng.pkgs = p2
	eng.allPkgs = map[string]*packages.Package{}
	packages.Visit(p2, nil, func(p *packages.Package) { eng.allPkgs[p.PkgPath] = p })
	prog, _ := ssautil.AllPackages(p2, ssa.NaiveForm)
	prog.Build()
	eng.prog = prog
	if err := eng.resolveSpecs(); err != nil {
		return nil, err
	}
	return eng, nil
}

// wrapperOfError: the wrapper function of the generated specification file that a type error lies in.
func (eng *Engine) wrapperOfError(e packages.Error) (string, string) {
	// Pos is "file:line:col"
	parts := strings.Split(e.Pos, ":")
	if len(parts) < 2 || !strings.HasSuffix(parts[0], overlayFileName) {
		return "", ""
	}
	var line int
	fmt.Sscanf(parts[1], "%d", &line)
	src, ok := eng.overlay[parts[0]]
	if !ok || line < 1 {
		return "", ""
	}
	lines := strings.Split(string(src), "\n")
	if line > len(lines) {
		return "", ""
	}
	ln := lines[line-1]
	if !strings.HasPrefix(ln, "func ") {
		return "", ""
	}
	name := strings.TrimPrefix(ln, "func ")
	if i := strings.IndexAny(name, "(["); i > 0 {
		name = name[:i]
	}
	// only mid-function clauses can be dropped (their anchors are part of the code's shape)
	if !strings.Contains(name, "_assert_") && !strings.Contains(name, "_inv") {
		return "", ""
	}
	return name, e.Msg
}

func pkgDir(p *packages.Package) string {
	if len(p.GoFiles) > 0 {
		return filepath.Dir(p.GoFiles[0])
	}
	if len(p.CompiledGoFiles) > 0 {
		return filepath.Dir(p.CompiledGoFiles[0])
	}
	return ""
}

// ---------- overlay generation ----------

type funcInfo struct {
	obj     *types.Func
	sig     *types.Signature
	decl    *ast.FuncDecl
	pnames  []string // receiver first
	ptypes  []types.Type
	rtypes  []types.Type
	rnames  []string
	extPkg  *types.Package
	hasRecv bool
	// function literal: the enclosing declared function and the path of 1-based ordinals (X$2$1 = [2 1])
	anonOf   *types.Func
	anonPath []int
}

func (eng *Engine) lookupFunc(p *packages.Package, name string) (*funcInfo, error) {
	name = strings.TrimSpace(name)
	if i := strings.Index(name, "$"); i > 0 {
		return eng.lookupFuncLit(p, name[:i], name[i:])
	}
	var obj *types.Func
	scope := p.Types.Scope()
	pkg := p.Types
	recvName, fname := "", name
	ptr := false
	if strings.HasPrefix(name, "(") {
		i := strings.Index(name, ").")
		if i < 0 {
			return nil, fmt.Errorf("bad function name %q", name)
		}
		recvName = strings.TrimPrefix(name[1:i], "*")
		ptr = strings.HasPrefix(name[1:i], "*")
		fname = name[i+2:]
	} else if i := strings.LastIndex(name, "."); i >= 0 {
		// pkg.Func or Type.Method
		left := name[:i]
		if scope.Lookup(left) != nil {
			recvName, fname = left, name[i+1:]
		} else {
			recvName, fname = "", name // external pkg.Func handled below
		}
	}
	_ = ptr
	resolveScope := func(q string) (*types.Scope, *types.Package, string, error) {
		if i := strings.Index(q, "."); i >= 0 {
			pn := q[:i]
			var first *types.Package
			for _, imp := range p.Types.Imports() {
				if imp.Name() == pn || imp.Path() == pn {
					// several imports may share a name (errors / github.com/pkg/errors): take the one that has the symbol
					if imp.Scope().Lookup(q[i+1:]) != nil {
						return imp.Scope(), imp, q[i+1:], nil
					}
					if first == nil {
						first = imp
					}
				}
			}
			if first != nil {
				return first.Scope(), first, q[i+1:], nil
			}
			return nil, nil, "", fmt.Errorf("package %q is not imported by %s", pn, p.PkgPath)
		}
		return scope, pkg, q, nil
	}
	if recvName != "" {
		sc, pk, tn, err := resolveScope(recvName)
		if err != nil {
			return nil, err
		}
		to := sc.Lookup(tn)
		if to == nil {
			return nil, fmt.Errorf("type %q not found", recvName)
		}
		pkg = pk
		ms := types.NewMethodSet(types.NewPointer(to.Type()))
		for i := 0; i < ms.Len(); i++ {
			if ms.At(i).Obj().Name() == fname {
				obj, _ = ms.At(i).Obj().(*types.Func)
			}
		}
	} else {
		sc, pk, fn, err := resolveScope(fname)
		if err != nil {
			return nil, err
		}
		pkg = pk
		if o := sc.Lookup(fn); o != nil {
			obj, _ = o.(*types.Func)
		}
	}
	if obj == nil {
		return nil, fmt.Errorf("function %q not found in %s", name, p.PkgPath)
	}
	sig := obj.Type().(*types.Signature)
	fi := &funcInfo{obj: obj, sig: sig}
	if pkg != p.Types {
		fi.extPkg = pkg
	}
	if r := sig.Recv(); r != nil {
		fi.hasRecv = true
		n := r.Name()
		if n == "" || n == "_" {
			n = "recv"
		}
		fi.pnames = append(fi.pnames, n)
		fi.ptypes = append(fi.ptypes, r.Type())
	}
	for i := 0; i < sig.Params().Len(); i++ {
		v := sig.Params().At(i)
		n := v.Name()
		if n == "" || n == "_" {
			n = fmt.Sprintf("p%d", i)
		}
		t := v.Type()
		fi.pnames = append(fi.pnames, n)
		fi.ptypes = append(fi.ptypes, t)
	}
	for i := 0; i < sig.Results().Len(); i++ {
		fi.rtypes = append(fi.rtypes, sig.Results().At(i).Type())
		fi.rnames = append(fi.rnames, sig.Results().At(i).Name())
	}
	// declaration (for scopes)
	for _, f := range p.Syntax {
		for _, d := range f.Decls {
			if fd, ok := d.(*ast.FuncDecl); ok && p.TypesInfo.Defs[fd.Name] == obj {
				fi.decl = fd
			}
		}
	}
	return fi, nil
}

// lookupFuncLit resolves "F$2$1": the first function literal inside the second function literal of F (numbered in
// source order, as go/ssa names them). The literal is wrapped in a synthetic declaration so that scopes, loops and call
// ordinals are computed over its own body; captured variables are found through the scope chain like other locals.
func (eng *Engine) lookupFuncLit(p *packages.Package, base, suffix string) (*funcInfo, error) {
	parent, err := eng.lookupFunc(p, base)
	if err != nil {
		return nil, err
	}
	if parent.decl == nil || parent.decl.Body == nil {
		return nil, fmt.Errorf("function %q has no body here", base)
	}
	var path []int
	for _, part := range strings.Split(strings.TrimPrefix(suffix, "$"), "$") {
		var k int
		if _, err := fmt.Sscanf(part, "%d", &k); err != nil || k < 1 {
			return nil, fmt.Errorf("bad function literal ordinal in %q", base+suffix)
		}
		path = append(path, k)
	}
	var body ast.Node = parent.decl.Body
	var lit *ast.FuncLit
	for _, k := range path {
		var lits []*ast.FuncLit
		ast.Inspect(body, func(n ast.Node) bool {
			if fl, ok := n.(*ast.FuncLit); ok {
				lits = append(lits, fl)
				return false
			}
			return true
		})
		if k > len(lits) {
			return nil, fmt.Errorf("function literal %q not found (%d literals at that level)", base+suffix, len(lits))
		}
		lit = lits[k-1]
		body = lit.Body
	}
	sig, ok := p.TypesInfo.TypeOf(lit).(*types.Signature)
	if !ok {
		return nil, fmt.Errorf("no type for function literal %q", base+suffix)
	}
	fi := &funcInfo{sig: sig, anonOf: parent.obj, anonPath: path}
	fi.decl = &ast.FuncDecl{Name: ast.NewIdent(base + suffix), Type: lit.Type, Body: lit.Body}
	for i := 0; i < sig.Params().Len(); i++ {
		v := sig.Params().At(i)
		n := v.Name()
		if n == "" || n == "_" {
			n = fmt.Sprintf("p%d", i)
		}
		fi.pnames = append(fi.pnames, n)
		fi.ptypes = append(fi.ptypes, v.Type())
	}
	for i := 0; i < sig.Results().Len(); i++ {
		fi.rtypes = append(fi.rtypes, sig.Results().At(i).Type())
		fi.rnames = append(fi.rnames, sig.Results().At(i).Name())
	}
	return fi, nil
}

type overlayGen struct {
	p       *packages.Package
	sb      strings.Builder
	imports map[string]string // alias -> path
	qual    types.Qualifier
	fset    *token.FileSet
	eng     *Engine
}

func (eng *Engine) genOverlay(p *packages.Package, cf *ContractFile, fset *token.FileSet) ([]byte, error) {
	g := &overlayGen{p: p, imports: map[string]string{}, fset: fset, eng: eng}
	// candidate imports: everything the package imports, plus explicit ones
	cand := map[string]string{}
	for _, imp := range p.Types.Imports() {
		cand[imp.Name()] = imp.Path()
	}
	for _, f := range p.Syntax {
		for _, is := range f.Imports {
			path := strings.Trim(is.Path.Value, "\"")
			if is.Name != nil && is.Name.Name != "_" && is.Name.Name != "." {
				cand[is.Name.Name] = path
			}
		}
	}
	for _, path := range cf.Imports {
		name := path
		if i := strings.LastIndex(path, "/"); i >= 0 {
			name = path[i+1:]
		}
		cand[name] = path
	}
	g.qual = func(q *types.Package) string {
		if q == p.Types {
			return ""
		}
		for n, path := range cand {
			if path == q.Path() {
				return n
			}
		}
		cand[q.Name()] = q.Path()
		return q.Name()
	}
	body := &g.sb
	for _, d := range cf.Decls {
		fmt.Fprintf(body, "// %s line %d\n%s\n\n", d.Kind, d.Line, d.Text)
	}
	for _, fs := range cf.Funcs {
		if fs.Ghost || fs.IsProc || (fs.Inline && len(fs.Requires)+len(fs.Ensures) == 0 && !fs.HasModifies && len(fs.Loops) == 0 && fs.Alloc == nil) {
			if !fs.Ghost && !fs.IsProc {
				// plain "inline" marker or spec func: nothing to generate, but the function must exist unless declared here
				declared := false
				for _, d := range cf.Decls {
					if d.Name == fs.Name {
						declared = true
					}
				}
				if !declared {
					if _, err := eng.lookupFunc(p, fs.Name); err != nil {
						return nil, fmt.Errorf("%s:%d: %v", cf.Path, fs.Line, err)
					}
				}
			}
			if !fs.IsProc {
				continue
			}
		}
		var fi *funcInfo
		if fs.IsProc {
			// procs are declared in the overlay; their loops/asserts are resolved after the second load
			if len(fs.Loops) > 0 {
				return nil, fmt.Errorf("%s:%d: loops in procs are not supported", cf.Path, fs.Line)
			}
			continue
		}
		var err error
		fi, err = eng.lookupFunc(p, fs.Name)
		if err != nil {
			return nil, fmt.Errorf("%s:%d: %v", cf.Path, fs.Line, err)
		}
		g.eng.followRenames(p, fs, fi)
		base := "__w_" + sanitizeIdent(fs.Name)
		emit := func(cl *Clause, kind string, withResults bool, pos token.Pos) error {
			cl.WrapperName = fmt.Sprintf("%s_%s_%s", base, kind, sanitizeIdent(cl.Label))
			if why, bad := g.eng.badWrappers[cl.WrapperName]; bad {
				return fmt.Errorf("%s:%d: clause does not type-check against this tree: %s", cf.Path, cl.Line, why)
			}
			params, decl, err := g.clauseParams(fi, cl.Go, withResults, pos)
			if err != nil {
				return fmt.Errorf("%s:%d: %v", cf.Path, cl.Line, err)
			}
			cl.Params = params
			txt := cl.Go
			if len(fi.rtypes) >= 1 && withResults {
				txt = replaceWord(txt, "result", "result0")
			}
			fmt.Fprintf(body, "// %s %s line %d: %s\nfunc %s(%s) bool { return %s }\n\n", fs.Name, kind, cl.Line, strings.ReplaceAll(cl.Text, "\n", " "), cl.WrapperName, decl, txt)
			return nil
		}
		for i := range fs.Requires {
			if err := emit(&fs.Requires[i], "pre", false, token.NoPos); err != nil {
				return nil, err
			}
		}
		for i := range fs.Ensures {
			if err := emit(&fs.Ensures[i], "post", true, token.NoPos); err != nil {
				return nil, err
			}
		}
		if fs.HasModifies {
			fs.ModWrapperN = base + "_mod"
			var stmts []string
			all := strings.Join(fs.Modifies, " ; ")
			for _, m := range fs.Modifies {
				m = strings.TrimSpace(m)
				if strings.HasPrefix(m, "all(") {
					stmts = append(stmts, "__modall("+m[4:len(m)-1]+")")
				} else {
					stmts = append(stmts, "__mod("+m+")")
				}
			}
			params, decl, err := g.clauseParams(fi, strings.Join(stmts, " + "), false, token.NoPos)
			_ = all
			if err != nil {
				return nil, fmt.Errorf("%s:%d: modifies: %v", cf.Path, fs.Line, err)
			}
			fs.ModParams = params
			fmt.Fprintf(body, "func %s(%s) { %s }\n\n", fs.ModWrapperN, decl, strings.Join(stmts, "; "))
		}
		// loops, allocs, asserts need positions inside the function
		if len(fs.Loops) > 0 || fs.Alloc != nil || len(fs.Asserts) > 0 {
			if fi.decl == nil {
				return nil, fmt.Errorf("%s:%d: %s has no declaration in this package", cf.Path, fs.Line, fs.Name)
			}
			loops := collectLoops(fi.decl)
			for k, ls := range fs.Loops {
				if k < 1 || k > len(loops) {
					g.eng.drift = append(g.eng.drift, fmt.Sprintf("%s:%d: %s has %d loops, contract names loop %d (its invariants dropped)", cf.Path, fs.Line, fs.Name, len(loops), k))
					delete(fs.Loops, k)
					continue
				}
				pos := loopBodyPos(loops[k-1])
				var kept []Clause
				for i := range ls.Invariants {
					if cl := &ls.Invariants[i]; cl.SinceCallee != "" {
						sc := collectCalls(fi.decl, cl.SinceCallee)
						if cl.SinceOrdinal < 1 || cl.SinceOrdinal > len(sc) {
							g.eng.drift = append(g.eng.drift, fmt.Sprintf("%s:%d: %s has %d calls of %s, invariant names call %d (invariant %s dropped)", cf.Path, cl.Line, fs.Name, len(sc), cl.SinceCallee, cl.SinceOrdinal, cl.Label))
							continue
						}
						sp := fset.Position(sc[cl.SinceOrdinal-1].Lparen)
						cl.SinceFile, cl.SinceOff = sp.Filename, sp.Offset
					}
					if err := emit(&ls.Invariants[i], fmt.Sprintf("inv%d", k), false, pos); err != nil {
						g.eng.drift = append(g.eng.drift, fmt.Sprintf("%v (invariant %s of loop %d dropped)", err, ls.Invariants[i].Label, k))
						continue
					}
					kept = append(kept, ls.Invariants[i])
				}
				ls.Invariants = kept
				if ls.Decreases != nil {
					cl := ls.Decreases
					cl.WrapperName = fmt.Sprintf("%s_dec%d", base, k)
					params, decl, err := g.clauseParams(fi, cl.Go, false, pos)
					if err != nil {
						return nil, fmt.Errorf("%s:%d: %v", cf.Path, cl.Line, err)
					}
					cl.Params = params
					fmt.Fprintf(body, "func %s(%s) int { return int(%s) }\n\n", cl.WrapperName, decl, cl.Go)
				}
			}
			if fs.Alloc != nil {
				cl := fs.Alloc
				cl.WrapperName = base + "_alloc"
				params, decl, err := g.clauseParams(fi, cl.Go, false, token.NoPos)
				if err != nil {
					return nil, fmt.Errorf("%s:%d: %v", cf.Path, cl.Line, err)
				}
				cl.Params = params
				fmt.Fprintf(body, "func %s(%s) int { return int(%s) }\n\n", cl.WrapperName, decl, cl.Go)
			}
			for i := range fs.Asserts {
				a := &fs.Asserts[i]
				if a.AtReturn {
					var rets []*ast.ReturnStmt
					ast.Inspect(fi.decl.Body, func(n ast.Node) bool {
						switch x := n.(type) {
						case *ast.FuncLit:
							return false
						case *ast.ReturnStmt:
							rets = append(rets, x)
						}
						return true
					})
					{
						var nodes []ast.Node
						for _, r := range rets {
							nodes = append(nodes, r)
						}
						a.Ordinal = g.eng.reanchor(p, fs, fmt.Sprintf("%s@return%d", a.Clause.Label, a.Ordinal), a.Ordinal, nodes, fset)
					}
					if a.Ordinal < 1 || a.Ordinal > len(rets) {
						g.eng.drift = append(g.eng.drift, fmt.Sprintf("%s:%d: %s has %d return statements, contract names return %d (clause %s dropped)", cf.Path, a.Clause.Line, fs.Name, len(rets), a.Ordinal, a.Clause.Label))
						a.Dead = true
						continue
					}
					pos := rets[a.Ordinal-1].Pos()
					pp := fset.Position(pos)
					a.File, a.Off = pp.Filename, pp.Offset
					if err := emit(&a.Clause, fmt.Sprintf("assert_return_%d", a.Ordinal), false, pos); err != nil {
						g.eng.drift = append(g.eng.drift, fmt.Sprintf("%v (clause %s dropped)", err, a.Clause.Label))
						a.Dead = true
					}
					continue
				}
				calls := collectCalls(fi.decl, a.Callee)
				if !strings.Contains(a.Clause.Go, "argof_") && !strings.Contains(a.Clause.Go, "resultof") && a.SinceCallee == "" {
					// (clauses that name calls by ordinal inside their expression keep their ordinal: moving the anchor
					// alone would separate the two)
					var nodes []ast.Node
					for _, c := range calls {
						nodes = append(nodes, c)
					}
					a.Ordinal = g.eng.reanchor(p, fs, fmt.Sprintf("%s@%s%d", a.Clause.Label, a.Callee, a.Ordinal), a.Ordinal, nodes, fset)
				}
				if a.Ordinal < 1 || a.Ordinal > len(calls) {
					g.eng.drift = append(g.eng.drift, fmt.Sprintf("%s:%d: %s has %d calls of %s, contract names call %d (clause %s dropped)", cf.Path, a.Clause.Line, fs.Name, len(calls), a.Callee, a.Ordinal, a.Clause.Label))
					a.Dead = true
					continue
				}
				pos := calls[a.Ordinal-1].Pos()
				a.Clause.Pos = pos
				lp := fset.Position(calls[a.Ordinal-1].Lparen)
				a.File, a.Off = lp.Filename, lp.Offset
				if a.SinceCallee == "if" {
					var ifs []*ast.IfStmt
					ast.Inspect(fi.decl.Body, func(n ast.Node) bool {
						switch x := n.(type) {
						case *ast.FuncLit:
							return false
						case *ast.IfStmt:
							ifs = append(ifs, x)
						}
						return true
					})
					if a.SinceOrdinal < 1 || a.SinceOrdinal > len(ifs) {
						g.eng.drift = append(g.eng.drift, fmt.Sprintf("%s:%d: %s has %d if statements, contract names if %d (clause %s dropped)", cf.Path, a.Clause.Line, fs.Name, len(ifs), a.SinceOrdinal, a.Clause.Label))
						a.Dead = true
						continue
					}
					cond := ifs[a.SinceOrdinal-1].Cond
					sp, ep := fset.Position(cond.Pos()), fset.Position(cond.End())
					a.SinceFile, a.SinceOff, a.SinceEnd = sp.Filename, sp.Offset, ep.Offset
				} else if a.SinceCallee != "" {
					sc := collectCalls(fi.decl, a.SinceCallee)
					if a.SinceOrdinal < 1 || a.SinceOrdinal > len(sc) {
						g.eng.drift = append(g.eng.drift, fmt.Sprintf("%s:%d: %s has %d calls of %s, contract names call %d (clause %s dropped)", cf.Path, a.Clause.Line, fs.Name, len(sc), a.SinceCallee, a.SinceOrdinal, a.Clause.Label))
						a.Dead = true
						continue
					}
					sp := fset.Position(sc[a.SinceOrdinal-1].Lparen)
					a.SinceFile, a.SinceOff = sp.Filename, sp.Offset
				}
				when := "before"
				if !a.Before {
					when = "after"
					// names declared by the statement holding the call (n, err := f(...)) are in scope after it
					ast.Inspect(fi.decl.Body, func(n ast.Node) bool {
						if as, ok := n.(*ast.AssignStmt); ok && as.Tok == token.DEFINE && as.Pos() <= calls[a.Ordinal-1].Pos() && calls[a.Ordinal-1].End() <= as.End() {
							if _, inFor := enclosingHeader(fi.decl.Body, as); !inFor {
								pos = as.End()
							}
						}
						return true
					})
				}
				if err := emit(&a.Clause, fmt.Sprintf("assert_%s_%d_%s", when, a.Ordinal, sanitizeIdent(a.Callee)), false, pos); err != nil {
					g.eng.drift = append(g.eng.drift, fmt.Sprintf("%v (clause %s dropped)", err, a.Clause.Label))
					a.Dead = true
				}
			}
		}
	}
	// header with the imports actually used
	var hdr strings.Builder
	hdr.WriteString("//go:build verif\n\n// Code generated by shvc from " + contractFileName + "; exists only in memory.\n\npackage " + p.Types.Name() + "\n\n")
	text := body.String() + prelude
	names := make([]string, 0, len(cand))
	for n := range cand {
		names = append(names, n)
	}
	sort.Strings(names)
	used := usedPackageIdents(text)
	for _, n := range names {
		if used[n] && p.Types.Scope().Lookup(n) == nil {
			fmt.Fprintf(&hdr, "import %s %q\n", n, cand[n])
		}
	}
	hdr.WriteString("\n")
	return []byte(hdr.String() + text), nil
}

func sanitizeIdent(s string) string {
	var sb strings.Builder
	for _, r := range s {
		if r >= 'a' && r <= 'z' || r >= 'A' && r <= 'Z' || r >= '0' && r <= '9' || r == '_' {
			sb.WriteRune(r)
		} else if r == '*' {
			sb.WriteString("P")
		} else if r == '.' {
			sb.WriteString("_")
		}
	}
	return sb.String()
}

func replaceWord(s, from, to string) string {
	var sb strings.Builder
	i := 0
	isId := func(b byte) bool {
		return b == '_' || b >= 'a' && b <= 'z' || b >= 'A' && b <= 'Z' || b >= '0' && b <= '9'
	}
	for i < len(s) {
		if strings.HasPrefix(s[i:], from) && (i == 0 || !isId(s[i-1]) && s[i-1] != '.') && (i+len(from) == len(s) || !isId(s[i+len(from)])) {
			sb.WriteString(to)
			i += len(from)
			continue
		}
		sb.WriteByte(s[i])
		i++
	}
	return sb.String()
}

func usedPackageIdents(src string) map[string]bool {
	used := map[string]bool{}
	fset := token.NewFileSet()
	f, err := parser.ParseFile(fset, "x.go", "package x\n"+src, parser.SkipObjectResolution)
	if err != nil {
		// fall back to textual scan
		for _, w := range strings.FieldsFunc(src, func(r rune) bool {
			return !(r == '_' || r == '.' || r >= 'a' && r <= 'z' || r >= 'A' && r <= 'Z' || r >= '0' && r <= '9')
		}) {
			if i := strings.Index(w, "."); i > 0 {
				used[w[:i]] = true
			}
		}
		return used
	}
	ast.Inspect(f, func(n ast.Node) bool {
		if se, ok := n.(*ast.SelectorExpr); ok {
			if id, ok := se.X.(*ast.Ident); ok {
				used[id.Name] = true
			}
		}
		return true
	})
	return used
}

// clauseParams determines the wrapper parameter list for a clause expression.
func (g *overlayGen) clauseParams(fi *funcInfo, goExpr string, withResults bool, pos token.Pos) ([]ClauseParam, string, error) {
	src := goExpr
	if len(fi.rtypes) >= 1 && withResults {
		// outside ensures "result" is an ordinary identifier (a local of that name, if the function has one)
		src = replaceWord(src, "result", "result0")
	}
	expr, err := parser.ParseExpr(src)
	if err != nil {
		// maybe a statement list (modifies wrapper); parse as function body
		f, err2 := parser.ParseFile(token.NewFileSet(), "x.go", "package x\nfunc _() {"+src+"}", 0)
		if err2 != nil {
			return nil, "", fmt.Errorf("cannot parse %q: %v", goExpr, err)
		}
		return g.paramsFromNode(fi, f.Decls[0].(*ast.FuncDecl).Body, withResults, pos)
	}
	return g.paramsFromNode(fi, expr, withResults, pos)
}

func (g *overlayGen) paramsFromNode(fi *funcInfo, node ast.Node, withResults bool, pos token.Pos) ([]ClauseParam, string, error) {
	free := map[string]bool{}
	var order []string
	var walk func(n ast.Node, bound map[string]bool)
	walk = func(n ast.Node, bound map[string]bool) {
		switch x := n.(type) {
		case nil:
			return
		case *ast.Ident:
			if !bound[x.Name] && !free[x.Name] {
				free[x.Name] = true
				order = append(order, x.Name)
			}
		case *ast.SelectorExpr:
			walk(x.X, bound)
		case *ast.FuncLit:
			nb := map[string]bool{}
			for k := range bound {
				nb[k] = true
			}
			for _, f := range x.Type.Params.List {
				for _, nm := range f.Names {
					nb[nm.Name] = true
				}
				walk(f.Type, bound)
			}
			walk(x.Body, nb)
		case *ast.KeyValueExpr:
			walk(x.Value, bound)
		default:
			ast.Inspect(n, func(c ast.Node) bool {
				if c == n || c == nil {
					return true
				}
				walk(c, bound)
				return false
			})
		}
	}
	walk(node, map[string]bool{})
	var params []ClauseParam
	var decl []string
	pidx := map[string]int{}
	for i, n := range fi.pnames {
		pidx[n] = i
	}
	for _, name := range order {
		if i, ok := pidx[name]; ok && !g.shadowedAt(fi, name, pos) {
			params = append(params, ClauseParam{Kind: pkParam, Index: i, Name: name})
			decl = append(decl, name+" "+types.TypeString(fi.ptypes[i], g.qual))
			continue
		}
		if strings.HasPrefix(name, "result") {
			var k int
			if _, err := fmt.Sscanf(name, "result%d", &k); err == nil && k < len(fi.rtypes) {
				if !withResults {
					return nil, "", fmt.Errorf("%s used outside ensures", name)
				}
				params = append(params, ClauseParam{Kind: pkResult, Index: k, Name: name})
				decl = append(decl, name+" "+types.TypeString(fi.rtypes[k], g.qual))
				continue
			}
		}
		if types.Universe.Lookup(name) != nil {
			continue
		}
		if strings.HasPrefix(name, "argof_") && fi.decl != nil {
			parts := strings.SplitN(strings.TrimPrefix(name, "argof_"), "_", 3)
			if len(parts) != 3 {
				return nil, "", fmt.Errorf("bad arg_of")
			}
			k, _ := strconv.Atoi(parts[0])
			ai, _ := strconv.Atoi(parts[1])
			calls := collectCalls(fi.decl, parts[2])
			if k < 1 || k > len(calls) {
				return nil, "", fmt.Errorf("arg_of: %d calls of %s, clause names call %d", len(calls), parts[2], k)
			}
			ce := calls[k-1]
			var ex ast.Expr
			if ai == 0 {
				se, ok := ce.Fun.(*ast.SelectorExpr)
				if !ok {
					return nil, "", fmt.Errorf("arg_of: call %d of %s has no receiver", k, parts[2])
				}
				ex = se.X
			} else if ai-1 < len(ce.Args) {
				ex = ce.Args[ai-1]
			} else {
				return nil, "", fmt.Errorf("arg_of: call %d of %s has %d arguments", k, parts[2], len(ce.Args))
			}
			tv, ok := g.p.TypesInfo.Types[ex]
			if !ok || tv.Type == nil {
				return nil, "", fmt.Errorf("arg_of: no type for argument %d of call %d of %s", ai, k, parts[2])
			}
			lp := g.fset.Position(ce.Lparen)
			params = append(params, ClauseParam{Kind: pkCallArg, Name: name, File: lp.Filename, Off: lp.Offset, Index: ai})
			decl = append(decl, name+" "+types.TypeString(tv.Type, g.qual))
			continue
		}
		if strings.HasPrefix(name, "resultofi_") && fi.decl != nil {
			parts := strings.SplitN(strings.TrimPrefix(name, "resultofi_"), "_", 3)
			if len(parts) != 3 {
				return nil, "", fmt.Errorf("bad result_of")
			}
			k, _ := strconv.Atoi(parts[0])
			ri, _ := strconv.Atoi(parts[1])
			calls := collectCalls(fi.decl, parts[2])
			if k < 1 || k > len(calls) {
				return nil, "", fmt.Errorf("result_of: %d calls of %s, clause names call %d", len(calls), parts[2], k)
			}
			tv, ok := g.p.TypesInfo.Types[calls[k-1]]
			tup, isTuple := tv.Type.(*types.Tuple)
			if !ok || !isTuple || ri >= tup.Len() {
				return nil, "", fmt.Errorf("result_of: call %d of %s has no result %d", k, parts[2], ri)
			}
			lp := g.fset.Position(calls[k-1].Lparen)
			params = append(params, ClauseParam{Kind: pkCallRes, Name: name, File: lp.Filename, Off: lp.Offset, Index: ri + 1})
			decl = append(decl, name+" "+types.TypeString(tup.At(ri).Type(), g.qual))
			continue
		}
		if strings.HasPrefix(name, "resultof_") && fi.decl != nil {
			parts := strings.SplitN(strings.TrimPrefix(name, "resultof_"), "_", 2)
			k, _ := strconv.Atoi(parts[0])
			if len(parts) != 2 {
				return nil, "", fmt.Errorf("bad result_of")
			}
			calls := collectCalls(fi.decl, parts[1])
			if k < 1 || k > len(calls) {
				return nil, "", fmt.Errorf("result_of: %d calls of %s, clause names call %d", len(calls), parts[1], k)
			}
			tv, ok := g.p.TypesInfo.Types[calls[k-1]]
			if !ok || tv.Type == nil {
				return nil, "", fmt.Errorf("result_of: no type for call %d of %s", k, parts[1])
			}
			if _, isTuple := tv.Type.(*types.Tuple); isTuple {
				return nil, "", fmt.Errorf("result_of: call %d of %s has several results", k, parts[1])
			}
			lp := g.fset.Position(calls[k-1].Lparen)
			params = append(params, ClauseParam{Kind: pkCallRes, Name: name, File: lp.Filename, Off: lp.Offset})
			decl = append(decl, name+" "+types.TypeString(tv.Type, g.qual))
			continue
		}
		if name == "rangeidx" {
			params = append(params, ClauseParam{Kind: pkRangeIdx, Name: name})
			decl = append(decl, "rangeidx int")
			continue
		}
		if fi.extPkg == nil && g.p.Types.Scope().Lookup(name) != nil {
			continue
		}
		if strings.HasPrefix(name, "__") {
			continue
		}
		isImport := false
		for _, imp := range g.p.Types.Imports() {
			if imp.Name() == name {
				isImport = true
			}
		}
		if isImport && fi.decl != nil && pos != token.NoPos {
			// a local (or named result) of that name shadows the package
			if sc := g.p.TypesInfo.Scopes[fi.decl.Type]; sc != nil {
				inner := sc.Innermost(pos)
				if inner == nil {
					inner = sc
				}
				if _, obj := inner.LookupParent(name, pos); obj != nil {
					if v, ok := obj.(*types.Var); ok && v.Parent() != g.p.Types.Scope() {
						isImport = false
					}
				}
			}
		}
		if isImport {
			continue
		}
		// spec-level declarations (spec funcs, ghost funcs) are package-level in the overlay
		if g.declared(name) {
			continue
		}
		// local variable
		if fi.decl == nil || pos == token.NoPos {
			// named result?
			found := false
			for k, rn := range fi.rnames {
				if rn == name && withResults {
					params = append(params, ClauseParam{Kind: pkResult, Index: k, Name: name})
					decl = append(decl, name+" "+types.TypeString(fi.rtypes[k], g.qual))
					found = true
				}
			}
			if found {
				continue
			}
			return nil, "", fmt.Errorf("identifier %q is not a parameter, result or package-level name", name)
		}
		sc := g.p.TypesInfo.Scopes[fi.decl.Type]
		if sc == nil {
			return nil, "", fmt.Errorf("no scope for function")
		}
		inner := sc.Innermost(pos)
		if inner == nil {
			inner = sc
		}
		look, snap := name, false
		if strings.HasPrefix(name, "before_") {
			look, snap = strings.TrimPrefix(name, "before_"), true
		}
		_, obj := inner.LookupParent(look, pos)
		v, ok := obj.(*types.Var)
		if !ok || v.Parent() == g.p.Types.Scope() {
			return nil, "", fmt.Errorf("identifier %q not found at the clause position", look)
		}
		pp := g.fset.Position(v.Pos())
		params = append(params, ClauseParam{Kind: pkLocal, Name: name, Pos: v.Pos(), File: pp.Filename, Off: pp.Offset, Snap: snap})
		decl = append(decl, name+" "+types.TypeString(v.Type(), g.qual))
	}
	return params, strings.Join(decl, ", "), nil
}

// shadowedAt: at the clause's position a local variable hides the parameter of that name (for i := range ... inside
// func Less(i, j int)).
func (g *overlayGen) shadowedAt(fi *funcInfo, name string, pos token.Pos) bool {
	if fi.decl == nil || pos == token.NoPos {
		return false
	}
	sc := g.p.TypesInfo.Scopes[fi.decl.Type]
	if sc == nil {
		return false
	}
	inner := sc.Innermost(pos)
	if inner == nil || inner == sc {
		return false
	}
	declScope, obj := inner.LookupParent(name, pos)
	if obj == nil || declScope == sc {
		return false
	}
	_, isVar := obj.(*types.Var)
	// a scope strictly inside the function's own scope declares it
	for s := declScope; s != nil; s = s.Parent() {
		if s == sc {
			return isVar
		}
	}
	return false
}

// ---------- renamed parameters and locals ----------

// FuncNames: the parameters and the locals of a function under contract, in source order, with their types - recorded at
// baseline. A contract names locals; when a later tree differs from the baseline only in how some of them are called
// (same number of declarations, same types, in the same order), the clauses follow the new names instead of losing
// their anchors. Anything else (a declaration added, removed, retyped) is left to the ordinary drift handling.
type FuncNames struct {
	Params []string    `json:"params"`
	Locals [][2]string `json:"locals"`
	// the text of the statement a return / call anchored clause sat on at baseline, by clause label: when a later tree
	// has other statements at that ordinal but exactly one with this text, the clause moves with its statement
	Anchors map[string]string `json:"anchors,omitempty"`
}

var namesPath string // <root>/contracts/names.json, set by the check command

func (eng *Engine) collectNames(p *packages.Package, fi *funcInfo) FuncNames {
	var fn FuncNames
	fn.Params = append(fn.Params, fi.pnames...)
	if fi.decl == nil || fi.decl.Body == nil {
		return fn
	}
	qual := func(q *types.Package) string { return q.Name() }
	ast.Inspect(fi.decl.Body, func(n ast.Node) bool {
		if id, ok := n.(*ast.Ident); ok {
			if v, ok := p.TypesInfo.Defs[id].(*types.Var); ok && !v.IsField() && id.Name != "_" {
				fn.Locals = append(fn.Locals, [2]string{id.Name, types.TypeString(v.Type(), qual)})
			}
		}
		return true
	})
	return fn
}

// reanchor: the ordinal of the statement a clause is anchored on. The text of that statement is recorded (for the
// baseline file); if the baseline recorded another text for this clause than the statement now at the ordinal has, and
// exactly one candidate statement has the recorded text, the clause follows it there.
func (eng *Engine) reanchor(p *packages.Package, fs *FuncSpec, label string, ordinal int, nodes []ast.Node, fset *token.FileSet) int {
	key := p.PkgPath + "." + fs.Name
	text := func(n ast.Node) string {
		var sb strings.Builder
		printer.Fprint(&sb, fset, n)
		return strings.Join(strings.Fields(sb.String()), " ")
	}
	if base, ok := eng.baseNames[key]; ok && base.Anchors != nil {
		if want, ok := base.Anchors[label]; ok && want != "" {
			if ordinal < 1 || ordinal > len(nodes) || text(nodes[ordinal-1]) != want {
				found := 0
				for i, n := range nodes {
					if text(n) == want {
						if found != 0 {
							found = -1
							break
						}
						found = i + 1
					}
				}
				if found > 0 {
					eng.renameNotes = append(eng.renameNotes, fmt.Sprintf("%s: clause %s follows its statement (%s) from position %d to %d", fs.Name, label, want, ordinal, found))
					ordinal = found
				}
			}
		}
	}
	if ordinal >= 1 && ordinal <= len(nodes) {
		cur := eng.curNames[key]
		if cur.Anchors == nil {
			cur.Anchors = map[string]string{}
		}
		cur.Anchors[label] = text(nodes[ordinal-1])
		eng.curNames[key] = cur
	}
	return ordinal
}

func (eng *Engine) followRenames(p *packages.Package, fs *FuncSpec, fi *funcInfo) {
	key := p.PkgPath + "." + fs.Name
	cur := eng.collectNames(p, fi)
	if eng.curNames == nil {
		eng.curNames = map[string]FuncNames{}
	}
	eng.curNames[key] = cur
	if eng.baseNames == nil {
		eng.baseNames = map[string]FuncNames{}
		if namesPath != "" {
			if data, err := os.ReadFile(namesPath); err == nil {
				json.Unmarshal(data, &eng.baseNames)
			}
		}
	}
	base, ok := eng.baseNames[key]
	if !ok || len(base.Params) != len(cur.Params) || len(base.Locals) != len(cur.Locals) {
		return
	}
	present := map[string]bool{}
	for _, n := range cur.Params {
		present[n] = true
	}
	for _, l := range cur.Locals {
		present[l[0]] = true
	}
	ren := map[string]string{}
	bad := map[string]bool{}
	add := func(from, to string) {
		if from == to || present[from] {
			return
		}
		if prev, ok := ren[from]; ok && prev != to {
			bad[from] = true
		}
		ren[from] = to
	}
	for i := range base.Params {
		add(base.Params[i], cur.Params[i])
	}
	for i := range base.Locals {
		if base.Locals[i][1] != cur.Locals[i][1] {
			return // a declaration changed its type: not a pure renaming
		}
		add(base.Locals[i][0], cur.Locals[i][0])
	}
	for from := range bad {
		delete(ren, from)
	}
	if len(ren) == 0 {
		return
	}
	var froms []string
	for from := range ren {
		froms = append(froms, from)
	}
	sort.Strings(froms)
	fix := func(cl *Clause) {
		for _, from := range froms {
			cl.Go = replaceWord(cl.Go, from, ren[from])
		}
	}
	for i := range fs.Requires {
		fix(&fs.Requires[i])
	}
	for i := range fs.Ensures {
		fix(&fs.Ensures[i])
	}
	for _, ls := range fs.Loops {
		for i := range ls.Invariants {
			fix(&ls.Invariants[i])
		}
		if ls.Decreases != nil {
			fix(ls.Decreases)
		}
	}
	for i := range fs.Asserts {
		fix(&fs.Asserts[i].Clause)
	}
	if fs.Alloc != nil {
		fix(fs.Alloc)
	}
	for i := range fs.Modifies {
		for _, from := range froms {
			fs.Modifies[i] = replaceWord(fs.Modifies[i], from, ren[from])
		}
	}
	for _, from := range froms {
		eng.renameNotes = append(eng.renameNotes, fmt.Sprintf("%s: contract follows the renaming %s -> %s", fs.Name, from, ren[from]))
	}
}

func (g *overlayGen) declared(name string) bool {
	return strings.Contains(g.sb.String(), "func "+name+"(") || strings.Contains(g.sb.String(), "func "+name+"[")
}

func collectLoops(fd *ast.FuncDecl) []ast.Stmt {
	var out []ast.Stmt
	ast.Inspect(fd.Body, func(n ast.Node) bool {
		switch x := n.(type) {
		case *ast.FuncLit:
			return false
		case *ast.ForStmt:
			out = append(out, x)
		case *ast.RangeStmt:
			out = append(out, x)
		}
		return true
	})
	return out
}

func loopBodyPos(s ast.Stmt) token.Pos {
	switch x := s.(type) {
	case *ast.ForStmt:
		return x.Body.Lbrace
	case *ast.RangeStmt:
		return x.Body.Lbrace
	}
	return token.NoPos
}

func collectCalls(fd *ast.FuncDecl, callee string) []*ast.CallExpr {
	var out []*ast.CallExpr
	ast.Inspect(fd.Body, func(n ast.Node) bool {
		if ce, ok := n.(*ast.CallExpr); ok {
			name := ""
			switch f := ce.Fun.(type) {
			case *ast.Ident:
				name = f.Name
			case *ast.SelectorExpr:
				name = f.Sel.Name
			}
			for _, alt := range strings.Split(callee, "|") {
				if name == alt {
					out = append(out, ce)
					break
				}
			}
		}
		return true
	})
	return out
}

// ---------- after the second load ----------

func (eng *Engine) ssaFuncFor(p *packages.Package, name string) *ssa.Function {
	fi, err := eng.lookupFunc(p, name)
	if err != nil {
		return nil
	}
	if fi.obj == nil && fi.anonOf != nil {
		fn := eng.prog.FuncValue(fi.anonOf)
		for _, k := range fi.anonPath {
			if fn == nil || k > len(fn.AnonFuncs) {
				return nil
			}
			fn = fn.AnonFuncs[k-1]
		}
		// go/ssa numbers literals in the order it builds them: make sure that is the literal the contract names
		if fn != nil && fi.decl != nil {
			a, b := eng.fset.Position(fn.Pos()), eng.fset.Position(fi.decl.Type.Func)
			if a.Line != b.Line || filepath.Base(a.Filename) != filepath.Base(b.Filename) {
				return nil
			}
		}
		return fn
	}
	return eng.prog.FuncValue(fi.obj)
}

func (eng *Engine) resolveSpecs() error {
	for _, p := range eng.pkgs {
		cf := eng.cfiles[p.PkgPath]
		if cf == nil {
			continue
		}
		sp := eng.prog.Package(p.Types)
		for _, fs := range cf.Funcs {
			fs.PkgPath = p.PkgPath
			fn := eng.ssaFuncFor(p, fs.Name)
			if fn == nil {
				return fmt.Errorf("%s:%d: function %s not found after load", cf.Path, fs.Line, fs.Name)
			}
			fs.Fn = fn
			eng.specs[fn] = fs
			eng.specList = append(eng.specList, fs)
			res := func(cl *Clause) error {
				if cl.WrapperName == "" {
					return nil
				}
				cl.Wrapper = sp.Func(cl.WrapperName)
				if cl.Wrapper == nil {
					return fmt.Errorf("%s:%d: wrapper %s missing", cf.Path, cl.Line, cl.WrapperName)
				}
				return nil
			}
			for i := range fs.Requires {
				if err := res(&fs.Requires[i]); err != nil {
					return err
				}
			}
			for i := range fs.Ensures {
				if err := res(&fs.Ensures[i]); err != nil {
					return err
				}
			}
			for _, ls := range fs.Loops {
				for i := range ls.Invariants {
					if err := res(&ls.Invariants[i]); err != nil {
						return err
					}
				}
				if ls.Decreases != nil {
					if err := res(ls.Decreases); err != nil {
						return err
					}
				}
			}
			if fs.Alloc != nil {
				if err := res(fs.Alloc); err != nil {
					return err
				}
			}
			for i := range fs.Asserts {
				if fs.Asserts[i].Dead {
					continue
				}
				if err := res(&fs.Asserts[i].Clause); err != nil {
					return err
				}
			}
			if fs.ModWrapperN != "" {
				fs.ModWrapper = sp.Func(fs.ModWrapperN)
			}
		}
	}
	return nil
}

// recursiveSpec: a function of the generated specification file that calls itself.
func (eng *Engine) recursiveSpec(fn *ssa.Function) bool {
	if v, ok := eng.recSpec[fn]; ok {
		return v
	}
	res := false
	if fn != nil && len(fn.Blocks) > 0 && fn.Pos() != token.NoPos && strings.HasSuffix(eng.fset.Position(fn.Pos()).Filename, "zz_verif_specs_gen.go") {
		for _, b := range fn.Blocks {
			for _, ins := range b.Instrs {
				if c, ok := ins.(*ssa.Call); ok && c.Call.StaticCallee() == fn {
					res = true
				}
			}
		}
	}
	if eng.recSpec == nil {
		eng.recSpec = map[*ssa.Function]bool{}
	}
	eng.recSpec[fn] = res
	return res
}

func (eng *Engine) specFor(fn *ssa.Function) *FuncSpec {
	if sp, ok := eng.specs[fn]; ok {
		return sp
	}
	if o := fn.Origin(); o != nil {
		return eng.specs[o]
	}
	return nil
}

func (eng *Engine) cfgOverflow(sp *FuncSpec) bool { return sp != nil && sp.Overflow }

// ---------- source text for obligation names ----------

func (eng *Engine) funcDecl(fn *ssa.Function) *ast.FuncDecl {
	if d, ok := eng.declOf[fn]; ok {
		return d
	}
	var res *ast.FuncDecl
	if fd, ok := fn.Syntax().(*ast.FuncDecl); ok {
		res = fd
	}
	eng.declOf[fn] = res
	return res
}

func (eng *Engine) nodes(fn *ssa.Function) map[token.Pos]ast.Node {
	root := fn
	for root.Parent() != nil {
		root = root.Parent()
	}
	if m, ok := eng.nodeAt[root]; ok {
		return m
	}
	m := map[token.Pos]ast.Node{}
	if syn := root.Syntax(); syn != nil {
		ast.Inspect(syn, func(n ast.Node) bool {
			switch x := n.(type) {
			case *ast.BinaryExpr:
				m[x.OpPos] = x
			case *ast.IndexExpr:
				m[x.Lbrack] = x
			case *ast.SliceExpr:
				m[x.Lbrack] = x
			case *ast.CallExpr:
				m[x.Lparen] = x
			case *ast.SelectorExpr:
				if _, ok := m[x.Sel.Pos()]; !ok {
					m[x.Sel.Pos()] = x
				}
			case *ast.UnaryExpr:
				m[x.OpPos] = x
			case *ast.StarExpr:
				m[x.Star] = x
			case *ast.IncDecStmt:
				m[x.TokPos] = x
			case *ast.AssignStmt:
				m[x.TokPos] = x
			}
			return true
		})
	}
	eng.nodeAt[root] = m
	return m
}

func (eng *Engine) srcText(ins ssa.Instruction) string {
	pos := ins.Pos()
	if pos == token.NoPos {
		if v, ok := ins.(ssa.Value); ok {
			return "<" + strings.SplitN(fmt.Sprintf("%T", v), ".", 2)[1] + ">"
		}
		return fmt.Sprintf("<%T>", ins)
	}
	n := eng.nodes(ins.Parent())[pos]
	if n == nil {
		p := eng.fset.Position(pos)
		_ = p
		return fmt.Sprintf("<%s>", strings.TrimPrefix(fmt.Sprintf("%T", ins), "*ssa."))
	}
	var buf bytes.Buffer
	printer.Fprint(&buf, eng.fset, n)
	s := strings.Join(strings.Fields(buf.String()), " ")
	if len(s) > 80 {
		s = s[:77] + "..."
	}
	return s
}

func (eng *Engine) posString(pos token.Pos) string {
	if pos == token.NoPos {
		return ""
	}
	p := eng.fset.Position(pos)
	return fmt.Sprintf("%s:%d", strings.TrimPrefix(p.Filename, eng.repo+"/"), p.Line)
}

// callOrdinal: ordinal of the call among calls of the same callee in source order.
// enclosingHeader reports whether stmt is the init statement of an if/for/switch (its names are scoped to that statement).
func enclosingHeader(body *ast.BlockStmt, stmt ast.Stmt) (ast.Node, bool) {
	var found ast.Node
	ast.Inspect(body, func(n ast.Node) bool {
		switch x := n.(type) {
		case *ast.IfStmt:
			if x.Init == stmt {
				found = x
			}
		case *ast.ForStmt:
			if x.Init == stmt {
				found = x
			}
		case *ast.SwitchStmt:
			if x.Init == stmt {
				found = x
			}
		}
		return found == nil
	})
	return found, found != nil
}

func (eng *Engine) callOrdinal(fn *ssa.Function, ins ssa.Instruction) int {
	m, ok := eng.callOrd[fn]
	if !ok {
		m = map[ssa.Instruction]int{}
		type ci struct {
			ins  ssa.Instruction
			name string
			pos  token.Pos
		}
		var calls []ci
		for _, b := range fn.Blocks {
			for _, i := range b.Instrs {
				var cc *ssa.CallCommon
				switch x := i.(type) {
				case *ssa.Call:
					cc = &x.Call
				case *ssa.Defer:
					cc = &x.Call
				case *ssa.Go:
					cc = &x.Call
				}
				if cc == nil {
					continue
				}
				name := ""
				if f := cc.StaticCallee(); f != nil {
					name = f.Name()
				} else if cc.IsInvoke() {
					name = cc.Method.Name()
				}
				calls = append(calls, ci{i, name, i.Pos()})
			}
		}
		sort.SliceStable(calls, func(a, b int) bool { return calls[a].pos < calls[b].pos })
		cnt := map[string]int{}
		for _, c := range calls {
			cnt[c.name]++
			m[c.ins] = cnt[c.name]
		}
		eng.callOrd[fn] = m
	}
	return m[ins]
}

// ---------- analyses ----------

func (eng *Engine) paramAlloc(fn *ssa.Function, idx int) *ssa.Alloc {
	if idx >= len(fn.Params) || len(fn.Blocks) == 0 {
		return nil
	}
	p := fn.Params[idx]
	for _, ins := range fn.Blocks[0].Instrs {
		if st, ok := ins.(*ssa.Store); ok && st.Val == p {
			if a, ok := st.Addr.(*ssa.Alloc); ok {
				return a
			}
		}
	}
	return nil
}

func (eng *Engine) localAlloc(fn *ssa.Function, p ClauseParam) *ssa.Alloc {
	for _, b := range fn.Blocks {
		for _, ins := range b.Instrs {
			if a, ok := ins.(*ssa.Alloc); ok && a.Pos() != token.NoPos {
				pp := eng.fset.Position(a.Pos())
				if pp.Filename == p.File && pp.Offset == p.Off {
					return a
				}
			}
		}
	}
	return nil
}

// privateCapture: the i-th captured variable of the function literal fn is a local of the enclosing function that is
// captured by this literal only, and both functions use its address for loads and stores alone.
func (eng *Engine) privateCapture(fn *ssa.Function, i int) bool {
	parent := fn.Parent()
	if parent == nil || i >= len(fn.FreeVars) {
		return false
	}
	var mk *ssa.MakeClosure
	for _, b := range parent.Blocks {
		for _, ins := range b.Instrs {
			if m, ok := ins.(*ssa.MakeClosure); ok && m.Fn == ssa.Value(fn) {
				if mk != nil {
					return false
				}
				mk = m
			}
		}
	}
	if mk == nil || i >= len(mk.Bindings) {
		return false
	}
	a, ok := mk.Bindings[i].(*ssa.Alloc)
	if !ok || eng.escapeInfo(parent)[a] {
		return false
	}
	if refs := a.Referrers(); refs != nil {
		for _, r := range *refs {
			if m, ok := r.(*ssa.MakeClosure); ok && m != mk {
				return false
			}
		}
	}
	return !eng.valueEscapes(fn.FreeVars[i], map[ssa.Value]bool{}, 0)
}

// localFreeVar: the captured variable a clause of a function literal names (matched by its declaration position).
func (eng *Engine) localFreeVar(fn *ssa.Function, p ClauseParam) *ssa.FreeVar {
	for _, fv := range fn.FreeVars {
		if fv.Pos() == token.NoPos {
			continue
		}
		pp := eng.fset.Position(fv.Pos())
		if pp.Filename == p.File && pp.Offset == p.Off {
			return fv
		}
	}
	return nil
}

func (eng *Engine) usesOld(fn *ssa.Function) bool {
	if v, ok := eng.oldCache[fn]; ok {
		return v
	}
	res := false
	var scan func(f *ssa.Function)
	scan = func(f *ssa.Function) {
		for _, b := range f.Blocks {
			for _, ins := range b.Instrs {
				if c, ok := ins.(*ssa.Call); ok {
					if cal := c.Call.StaticCallee(); cal != nil {
						n := cal.Name()
						if o := cal.Origin(); o != nil {
							n = o.Name()
						}
						if n == "__old" {
							res = true
						}
					}
				}
			}
		}
		for _, a := range f.AnonFuncs {
			scan(a)
		}
	}
	scan(fn)
	eng.oldCache[fn] = res
	return res
}

func hasLoop(fn *ssa.Function) bool {
	if len(fn.Blocks) == 0 {
		return false
	}
	_, back := blockOrder(fn)
	return len(back) > 0
}

// inlinable: static callee with a body, no loops, moderately small.
func (eng *Engine) inlinable(fn *ssa.Function, pure bool) bool {
	if len(fn.Blocks) == 0 {
		return false
	}
	if sp := eng.specFor(fn); sp != nil && sp.Inline {
		return true
	}
	if fn.Parent() != nil {
		return !hasLoop(fn) // closures are always inlined when loop-free
	}
	v, ok := eng.inlCache[fn]
	if !ok {
		v = 1
		if hasLoop(fn) {
			v = 0
		}
		n := 0
		for _, b := range fn.Blocks {
			n += len(b.Instrs)
			for _, ins := range b.Instrs {
				switch ins.(type) {
				case *ssa.Go, *ssa.Select, *ssa.Send:
					v = 0
				}
			}
		}
		if n > 400 {
			v = 0
		}
		if fn.Recover != nil {
			v = 0
		}
		eng.inlCache[fn] = v
	}
	return v == 1
}

// escapeInfo: which Allocs must live on the heap (address leaves the function's static view).
func (eng *Engine) escapeInfo(fn *ssa.Function) map[*ssa.Alloc]bool {
	if m, ok := eng.escCache[fn]; ok {
		return m
	}
	m := map[*ssa.Alloc]bool{}
	for _, b := range fn.Blocks {
		for _, ins := range b.Instrs {
			if a, ok := ins.(*ssa.Alloc); ok {
				if eng.valueEscapes(a, map[ssa.Value]bool{}, 0) {
					m[a] = true
					if os.Getenv("SHVC_DEBUG_ESC") != "" {
						fmt.Fprintf(os.Stderr, "escapes: %s in %s (%s)\n", a.Comment, fn.Name(), a.Name())
						if refs := a.Referrers(); refs != nil {
							for _, r := range *refs {
								fmt.Fprintf(os.Stderr, "    ref: %T %s\n", r, r)
							}
						}
					}
				}
			}
		}
	}
	eng.escCache[fn] = m
	return m
}

// valueEscapes: can the pointer value v be stored in the heap, returned, or reach code that is not inlined?
func (eng *Engine) valueEscapes(v ssa.Value, seen map[ssa.Value]bool, depth int) bool {
	if seen[v] {
		return false
	}
	seen[v] = true
	if depth > 6 {
		return true
	}
	refs := v.Referrers()
	if refs == nil {
		return true
	}
	for _, r := range *refs {
		switch x := r.(type) {
		case *ssa.Store:
			if x.Val == v {
				// stored into a local cell whose own address stays local: follow the loads of that cell
				a, ok := x.Addr.(*ssa.Alloc)
				if !ok {
					return true
				}
				arefs := a.Referrers()
				if arefs == nil {
					return true
				}
				for _, ar := range *arefs {
					switch y := ar.(type) {
					case *ssa.Store:
						if y.Val == a {
							return true
						}
					case *ssa.UnOp:
						if eng.valueEscapes(y, seen, depth) {
							return true
						}
					case *ssa.DebugRef:
					default:
						return true
					}
				}
			}
		case *ssa.UnOp:
			// load through the pointer
		case *ssa.FieldAddr:
			if eng.valueEscapes(x, seen, depth) {
				return true
			}
		case *ssa.IndexAddr:
			if eng.valueEscapes(x, seen, depth) {
				return true
			}
		case *ssa.Slice:
			return true
		case *ssa.Call:
			if !eng.argStaysStatic(&x.Call, v, depth) {
				return true
			}
		case *ssa.Defer:
			if !eng.argStaysStatic(&x.Call, v, depth) {
				return true
			}
		case *ssa.MakeClosure:
			// captured by reference; closure is inlined when called. If the closure itself escapes to an
			// unknown callee the executor havocs captured cells.
		case *ssa.BinOp:
			// comparison with nil / another pointer
			if x.Op != token.EQL && x.Op != token.NEQ {
				return true
			}
		case *ssa.DebugRef:
		default:
			return true
		}
	}
	return false
}

func (eng *Engine) argStaysStatic(cc *ssa.CallCommon, v ssa.Value, depth int) bool {
	if cc.IsInvoke() {
		return false
	}
	callee := cc.StaticCallee()
	if callee == nil {
		return false
	}
	n := callee.Name()
	if o := callee.Origin(); o != nil {
		n = o.Name()
	}
	if strings.HasPrefix(n, "__") {
		return n != "__mod" && n != "__modall"
	}
	if sp := eng.specFor(callee); sp != nil && !sp.Inline {
		// called by contract: the pointer is passed by copy-in / copy-out (callByContract), which is exact as long as
		// the callee does not keep the pointer - read off its body
		if sp.Assume || len(callee.Blocks) == 0 {
			return false
		}
		for i, a := range cc.Args {
			if a == v {
				if i >= len(callee.Params) || eng.valueEscapes(callee.Params[i], map[ssa.Value]bool{}, depth+1) {
					return false
				}
			}
		}
		return true
	}
	if eng.isModelled(callee.String()) || eng.isPureExternal(callee.String()) || eng.isNoop(callee.String()) {
		return false
	}
	if !eng.inlinable(callee, false) {
		return false
	}
	// inside the inlined callee the parameter must stay static as well
	for i, a := range cc.Args {
		if a == v {
			if i >= len(callee.Params) || eng.valueEscapes(callee.Params[i], map[ssa.Value]bool{}, depth+1) {
				return false
			}
		}
	}
	return true
}

type modSet struct {
	all    bool
	heap   map[string]string // array name -> sort
	cells  map[*ssa.Alloc]bool
	allocs bool
	pkgs   map[string]bool // everything stored in objects of types of these packages
}

func newModSet() *modSet {
	return &modSet{heap: map[string]string{}, cells: map[*ssa.Alloc]bool{}, pkgs: map[string]bool{}}
}

func (m *modSet) merge(o *modSet) {
	if o.all {
		m.all = true
	}
	for k, v := range o.heap {
		m.heap[k] = v
	}
	if o.allocs {
		m.allocs = true
	}
	for k := range o.pkgs {
		m.pkgs[k] = true
	}
}

// names/sorts of heap arrays are computed with a scratch type map (names are deterministic)
func (eng *Engine) nameTM() *Exec {
	if eng.tmForNames == nil {
		c := NewTermCtx()
		eng.tmForNames = NewTypeMap(c)
	}
	return &Exec{c: eng.tmForNames.c, tm: eng.tmForNames, heapSorts: map[string]string{}, touched: map[string]bool{}}
}

func (eng *Engine) addTypeWrites(ms *modSet, ne *Exec, ty types.Type) {
	if isStructT(ty) {
		si := ne.tm.Struct(ty)
		for i, f := range si.fields {
			if isStructT(f.typ) || memArrayT(f.typ) {
				eng.addTypeWrites(ms, ne, f.typ)
				continue
			}
			n, s := ne.fieldArr(ty, i)
			ms.heap[n] = s
		}
		return
	}
	if memArrayT(ty) {
		n, s := ne.memArr(ty.Underlying().(*types.Array).Elem())
		ms.heap[n] = s
		return
	}
	n, s := ne.boxArr(ty)
	ms.heap[n] = s
}

func rootAlloc(v ssa.Value) *ssa.Alloc {
	for {
		switch x := v.(type) {
		case *ssa.Alloc:
			return x
		case *ssa.FieldAddr:
			v = x.X
		case *ssa.IndexAddr:
			if _, ok := x.X.Type().Underlying().(*types.Pointer); ok {
				v = x.X
			} else {
				return nil
			}
		default:
			return nil
		}
	}
}

func (eng *Engine) instrWrites(ms *modSet, ne *Exec, fn *ssa.Function, ins ssa.Instruction, esc map[*ssa.Alloc]bool, depth int) {
	switch x := ins.(type) {
	case *ssa.Store:
		eng.addrWrites(ms, ne, fn, x.Addr, x.Val.Type(), esc)
	case *ssa.MapUpdate:
		mt := x.Map.Type().Underlying().(*types.Map)
		dn, vn, ln, ks, vs := ne.mapArrs(mt)
		ms.heap[dn] = arrSort("Int", arrSort(ks, "Bool"))
		ms.heap[vn] = arrSort("Int", arrSort(ks, vs))
		ms.heap[ln] = arrSort("Int", "Int")
	default:
		eng.instrWrites2(ms, ne, fn, ins, esc, depth)
	}
}

// addrWrites: a store of a value of type ty through address addr.
func (eng *Engine) addrWrites(ms *modSet, ne *Exec, fn *ssa.Function, addr ssa.Value, ty types.Type, esc map[*ssa.Alloc]bool) {
	{
		if a := rootAlloc(addr); a != nil && !esc[a] && a.Parent() == fn {
			ms.cells[a] = true
			return
		}
		switch ad := addr.(type) {
		case *ssa.FieldAddr:
			st := deref(ad.X.Type())
			ft := st.Underlying().(*types.Struct).Field(ad.Field).Type()
			if isStructT(ft) || memArrayT(ft) {
				eng.addTypeWrites(ms, ne, ft)
			} else {
				n, s := ne.fieldArr(st, ad.Field)
				ms.heap[n] = s
			}
		case *ssa.IndexAddr:
			var et types.Type
			switch u := ad.X.Type().Underlying().(type) {
			case *types.Slice:
				et = u.Elem()
			case *types.Pointer:
				et = u.Elem().Underlying().(*types.Array).Elem()
			}
			if et != nil && isStructT(et) {
				eng.addTypeWrites(ms, ne, et)
			} else if et != nil {
				n, s := ne.memArr(et)
				ms.heap[n] = s
			} else {
				ms.all = true
			}
		case *ssa.Global:
			ms.heap["G_"+sanitize(ad.Pkg.Pkg.Name()+"."+ad.Name())] = ne.tm.Sort(deref(ad.Type()))
		case *ssa.FreeVar:
			// captured cell of the parent: handled by the parent's conservative treatment
			ms.allocs = ms.allocs
		default:
			eng.addTypeWrites(ms, ne, ty)
		}
	}
}

func (eng *Engine) instrWrites2(ms *modSet, ne *Exec, fn *ssa.Function, ins ssa.Instruction, esc map[*ssa.Alloc]bool, depth int) {
	switch x := ins.(type) {
	case *ssa.Alloc:
		if esc[x] {
			ms.allocs = true
			eng.addTypeWrites(ms, ne, deref(x.Type()))
		}
	case *ssa.MakeSlice:
		ms.allocs = true
		et := x.Type().Underlying().(*types.Slice).Elem()
		if !isStructT(et) && !isArrayT(et) {
			n, s := ne.memArr(et)
			ms.heap[n] = s
		}
	case *ssa.MakeMap:
		ms.allocs = true
		mt := x.Type().Underlying().(*types.Map)
		dn, _, ln, ks, _ := ne.mapArrs(mt)
		ms.heap[dn] = arrSort("Int", arrSort(ks, "Bool"))
		ms.heap[ln] = arrSort("Int", "Int")
	case *ssa.MakeChan, *ssa.MakeInterface:
		ms.allocs = true
	case *ssa.Convert:
		if isSliceT(x.Type()) && isString(x.X.Type()) {
			ms.allocs = true
			n, s := ne.memArr(x.Type().Underlying().(*types.Slice).Elem())
			ms.heap[n] = s
		}
	case *ssa.Send, *ssa.Select:
		ms.all = true
	case *ssa.UnOp:
		if x.Op == token.ARROW {
			ms.all = true
		}
	case *ssa.Call:
		eng.callWrites(ms, ne, fn, &x.Call, depth, esc)
	case *ssa.Defer:
		eng.callWrites(ms, ne, fn, &x.Call, depth, esc)
	case *ssa.Go:
	}
}

func (eng *Engine) callWrites(ms *modSet, ne *Exec, fn *ssa.Function, cc *ssa.CallCommon, depth int, esc map[*ssa.Alloc]bool) {
	if b, ok := cc.Value.(*ssa.Builtin); ok {
		switch b.Name() {
		case "append":
			ms.allocs = true
			et := cc.Args[0].Type().Underlying().(*types.Slice).Elem()
			if isStructT(et) {
				eng.addTypeWrites(ms, ne, et)
			} else if isArrayT(et) {
				ms.all = true
			} else {
				n, s := ne.memArr(et)
				ms.heap[n] = s
			}
		case "copy":
			et := cc.Args[0].Type().Underlying().(*types.Slice).Elem()
			if isStructT(et) || isArrayT(et) {
				ms.all = true
			} else {
				n, s := ne.memArr(et)
				ms.heap[n] = s
			}
		case "delete":
			mt := cc.Args[0].Type().Underlying().(*types.Map)
			dn, _, ln, ks, _ := ne.mapArrs(mt)
			ms.heap[dn] = arrSort("Int", arrSort(ks, "Bool"))
			ms.heap[ln] = arrSort("Int", "Int")
		case "clear":
			switch u := cc.Args[0].Type().Underlying().(type) {
			case *types.Map:
				dn, _, ln, ks, _ := ne.mapArrs(u)
				ms.heap[dn] = arrSort("Int", arrSort(ks, "Bool"))
				ms.heap[ln] = arrSort("Int", "Int")
			case *types.Slice:
				if !isStructT(u.Elem()) && !isArrayT(u.Elem()) {
					n, s := ne.memArr(u.Elem())
					ms.heap[n] = s
				} else {
					ms.all = true
				}
			default:
				ms.all = true
			}
		}
		return
	}
	if cc.IsInvoke() {
		ms.all = true
		return
	}
	callee := cc.StaticCallee()
	if callee == nil {
		// closure value created in this function? conservatively everything
		if mc, ok := cc.Value.(*ssa.MakeClosure); ok {
			ms.merge(eng.mayWriteDepth(mc.Fn.(*ssa.Function), depth+1))
			return
		}
		ms.all = true
		return
	}
	name := callee.String()
	base := callee.Name()
	if o := callee.Origin(); o != nil {
		base = o.Name()
		name = o.String()
	}
	if strings.HasPrefix(base, "__") {
		return
	}
	if strings.HasPrefix(name, "sync/atomic.") {
		op := strings.TrimPrefix(name, "sync/atomic.")
		if !strings.HasPrefix(op, "Load") && len(cc.Args) > 0 {
			if pt, ok := cc.Args[0].Type().Underlying().(*types.Pointer); ok {
				eng.addrWrites(ms, ne, fn, cc.Args[0], pt.Elem(), esc)
			}
		}
		return
	}
	if name == "(*sync.Cond).Wait" {
		// interference while waiting: confined to the waiting function's own modifies clause, else everything
		if sp := eng.specFor(fn); sp != nil && sp.HasModifies && len(sp.ModPkgs) == 0 {
			callee = fn
		} else {
			ms.all = true
			return
		}
	}
	if eng.isModelled(name) || eng.isPureExternal(name) || eng.isNoop(name) {
		if strings.Contains(name, "littleEndian).PutUint") || strings.Contains(name, "littleEndian).AppendUint") {
			n, srt := ne.memArr(types.Typ[types.Uint8])
			ms.heap[n] = srt
			ms.allocs = true
		}
		return
	}
	if sp := eng.specFor(callee); sp != nil {
		if sp.Ghost {
			return
		}
		if len(sp.ModPkgs) > 0 {
			for _, pk := range sp.ModPkgs {
				ms.pkgs[pk] = true
			}
			ms.allocs = true
			if !sp.HasModifies {
				return
			}
		}
		if sp.HasModifies {
			// explicit locations: the arrays named by the clause's own __mod / __modall expressions
			ms.allocs = true
			if sp.ModWrapper != nil && eng.modWrapperWrites(ms, ne, sp.ModWrapper) {
				return
			}
			// fall back: over-approximate by the field arrays of the parameter types and the element
			// arrays of their slice-typed fields
			for _, p := range callee.Params {
				switch u := p.Type().Underlying().(type) {
				case *types.Pointer:
					eng.addTypeWrites(ms, ne, u.Elem())
					if st, ok := u.Elem().Underlying().(*types.Struct); ok {
						for i := 0; i < st.NumFields(); i++ {
							if sl, ok := st.Field(i).Type().Underlying().(*types.Slice); ok && !isStructT(sl.Elem()) {
								n, s := ne.memArr(sl.Elem())
								ms.heap[n] = s
							}
						}
					}
				case *types.Slice:
					if isStructT(u.Elem()) {
						eng.addTypeWrites(ms, ne, u.Elem())
					} else {
						n, s := ne.memArr(u.Elem())
						ms.heap[n] = s
					}
				}
			}
			return
		}
		if sp.Assume && !sp.HasModifies && !sp.Havoc {
			return
		}
	}
	ms.merge(eng.mayWriteDepth(callee, depth+1))
}

// modWrapperWrites: the heap arrays a modifies clause names, read off the __mod / __modall calls of its wrapper (the
// same case analysis as the evaluation of those intrinsics in callIntrinsic). False if a form is not recognised.
func (eng *Engine) modWrapperWrites(ms *modSet, ne *Exec, w *ssa.Function) bool {
	tmp := newModSet()
	for _, b := range w.Blocks {
		for _, ins := range b.Instrs {
			call, ok := ins.(*ssa.Call)
			if !ok {
				continue
			}
			callee := call.Call.StaticCallee()
			if callee == nil {
				return false
			}
			base := callee.Name()
			if o := callee.Origin(); o != nil {
				base = o.Name()
			}
			switch base {
			case "__mod":
				arg := call.Call.Args[0]
				switch ad := arg.(type) {
				case *ssa.FieldAddr:
					st := deref(ad.X.Type())
					ft := st.Underlying().(*types.Struct).Field(ad.Field).Type()
					if isStructT(ft) || memArrayT(ft) {
						eng.addTypeWrites(tmp, ne, ft)
					} else {
						n, s := ne.fieldArr(st, ad.Field)
						tmp.heap[n] = s
					}
				case *ssa.IndexAddr:
					var et types.Type
					switch u := ad.X.Type().Underlying().(type) {
					case *types.Slice:
						et = u.Elem()
					case *types.Pointer:
						if at, ok := u.Elem().Underlying().(*types.Array); ok {
							et = at.Elem()
						}
					}
					if et == nil {
						return false
					}
					if isStructT(et) || memArrayT(et) {
						eng.addTypeWrites(tmp, ne, et)
					} else {
						n, s := ne.memArr(et)
						tmp.heap[n] = s
					}
				default:
					pt, ok := arg.Type().Underlying().(*types.Pointer)
					if !ok {
						return false
					}
					eng.addTypeWrites(tmp, ne, pt.Elem())
				}
			case "__modall":
				switch u := call.Call.Args[0].Type().Underlying().(type) {
				case *types.Slice:
					if isStructT(u.Elem()) || memArrayT(u.Elem()) {
						eng.addTypeWrites(tmp, ne, u.Elem())
					} else {
						n, s := ne.memArr(u.Elem())
						tmp.heap[n] = s
					}
				case *types.Map:
					dn, vn, ln, ks, vs := ne.mapArrs(u)
					tmp.heap[dn] = arrSort("Int", arrSort(ks, "Bool"))
					tmp.heap[vn] = arrSort("Int", arrSort(ks, vs))
					tmp.heap[ln] = arrSort("Int", "Int")
				case *types.Pointer:
					eng.addTypeWrites(tmp, ne, u.Elem())
				default:
					return false
				}
			default:
				if strings.HasPrefix(base, "__") {
					continue
				}
				return false
			}
		}
	}
	ms.merge(tmp)
	return true
}

func (eng *Engine) mayWrite(fn *ssa.Function) *modSet { return eng.mayWriteDepth(fn, 0) }

func (eng *Engine) mayWriteDepth(fn *ssa.Function, depth int) *modSet {
	if m, ok := eng.mwCache[fn]; ok {
		return m
	}
	ms := newModSet()
	if len(fn.Blocks) == 0 || eng.mwBusy[fn] || depth > 12 {
		ms.all = true
		return ms
	}
	eng.mwBusy[fn] = true
	ne := eng.nameTM()
	esc := eng.escapeInfo(fn)
	for _, b := range fn.Blocks {
		for _, ins := range b.Instrs {
			eng.instrWrites(ms, ne, fn, ins, esc, depth)
		}
	}
	// cells of this function are invisible to callers
	ms.cells = map[*ssa.Alloc]bool{}
	delete(eng.mwBusy, fn)
	eng.mwCache[fn] = ms
	return ms
}

// loopMods: what a loop body may modify.
func (eng *Engine) loopMods(fn *ssa.Function, li *loopInfo, esc map[*ssa.Alloc]bool) *modSet {
	ms := newModSet()
	ne := eng.nameTM()
	hasCall := false
	for b := range li.body {
		for _, ins := range b.Instrs {
			eng.instrWrites(ms, ne, fn, ins, esc, 0)
			switch ins.(type) {
			case *ssa.Call, *ssa.Defer:
				hasCall = true
			}
		}
	}
	if hasCall {
		// cells shared with closures or passed by address to inlined callees may be written by them
		for _, b := range fn.Blocks {
			for _, ins := range b.Instrs {
				a, ok := ins.(*ssa.Alloc)
				if !ok || esc[a] {
					continue
				}
				if refs := a.Referrers(); refs != nil {
					for _, r := range *refs {
						switch rx := r.(type) {
						case *ssa.MakeClosure:
							if closureMayWrite(rx, a, 0) {
								ms.cells[a] = true
							}
						case *ssa.Call, *ssa.Defer:
							// the callee (inlined: the address does not outlive the call) can write through it only
							// while it runs: that matters when the call is inside this loop
							if li.body[r.Block()] {
								ms.cells[a] = true
							}
						case *ssa.FieldAddr, *ssa.IndexAddr:
							if rr := r.(ssa.Value).Referrers(); rr != nil {
								for _, r2 := range *rr {
									switch r2.(type) {
									case *ssa.Call, *ssa.Defer:
										if li.body[r2.Block()] {
											ms.cells[a] = true
										}
									}
								}
							}
						}
					}
				}
			}
		}
	}
	return ms
}

// closureMayWrite: the closure stores to (or passes on) the captured variable v.
func closureMayWrite(mc *ssa.MakeClosure, v ssa.Value, depth int) bool {
	fn, ok := mc.Fn.(*ssa.Function)
	if !ok || depth > 4 {
		return true
	}
	for i, b := range mc.Bindings {
		if b != v || i >= len(fn.FreeVars) {
			continue
		}
		fv := fn.FreeVars[i]
		refs := fv.Referrers()
		if refs == nil {
			continue
		}
		for _, r := range *refs {
			switch x := r.(type) {
			case *ssa.UnOp:
				// load
			case *ssa.DebugRef:
			case *ssa.Store:
				if x.Addr == ssa.Value(fv) {
					return true
				}
				return true // address stored somewhere
			case *ssa.MakeClosure:
				if closureMayWrite(x, fv, depth+1) {
					return true
				}
			default:
				return true
			}
		}
	}
	return false
}

// globalNonNil: an interface-typed package-level variable whose only initialisation in the package's init is a
// freshly made error value.
func (eng *Engine) globalNonNil(g *ssa.Global) bool {
	if _, ok := deref(g.Type()).Underlying().(*types.Interface); !ok {
		return false
	}
	if v, ok := eng.gnnCache[g]; ok {
		return v
	}
	res := false
	if init := g.Pkg.Func("init"); init != nil {
		for _, b := range init.Blocks {
			for _, ins := range b.Instrs {
				st, ok := ins.(*ssa.Store)
				if !ok || st.Addr != g {
					continue
				}
				switch v := st.Val.(type) {
				case *ssa.Call:
					if c := v.Call.StaticCallee(); c != nil {
						n := c.String()
						if n == "errors.New" || n == "fmt.Errorf" {
							res = true
						}
					}
				case *ssa.MakeInterface:
					res = true
				}
			}
		}
	}
	if eng.gnnCache == nil {
		eng.gnnCache = map[*ssa.Global]bool{}
	}
	eng.gnnCache[g] = res
	return res
}
