package main

import (
	"flag"
	"fmt"
	"os"
	"sort"
	"strings"
	"time"
)

func main() {
	if len(os.Args) < 2 {
		fmt.Fprintln(os.Stderr, "usage: shvc dev|check|selftest ...")
		os.Exit(2)
	}
	switch os.Args[1] {
	case "dev":
		devMain(os.Args[2:])
	case "check":
		checkMain(os.Args[2:])
	case "selftest":
		selftestMain(os.Args[2:])
	case "overlay":
		overlayMain(os.Args[2:])
	default:
		fmt.Fprintln(os.Stderr, "unknown command", os.Args[1])
		os.Exit(2)
	}
}

func overlayMain(args []string) {
	fs := flag.NewFlagSet("overlay", flag.ExitOnError)
	repo := fs.String("repo", "/repo", "repository root")
	fs.Parse(args)
	eng, err := loadEngine(*repo, fs.Args(), nil)
	if err != nil {
		fmt.Println("ERROR:", err)
		if eng == nil {
			os.Exit(2)
		}
	}
	for k, v := range eng.overlay {
		fmt.Printf("=== %s\n%s\n", k, v)
	}
}

// devMain: verify all contracted functions of the given packages and print a table.
func devMain(args []string) {
	fs := flag.NewFlagSet("dev", flag.ExitOnError)
	repo := fs.String("repo", "/repo", "repository root")
	only := fs.String("func", "", "substring filter on function names")
	timeout := fs.Int("t", 10, "solver timeout (s)")
	dump := fs.String("dump", "", "directory to dump failed queries")
	verbose := fs.Bool("v", false, "verbose")
	mut := fs.String("mut", "", "in-memory edit: file|find|replace (file relative to repo)")
	fs.Parse(args)
	t0 := time.Now()
	var ov map[string][]byte
	if *mut != "" {
		parts := strings.SplitN(*mut, "|", 3)
		path := *repo + "/" + parts[0]
		data, err := os.ReadFile(path)
		if err != nil {
			fmt.Println("ERROR:", err)
			os.Exit(2)
		}
		if strings.Count(string(data), parts[1]) != 1 {
			fmt.Printf("ERROR: mutation pattern occurs %d times\n", strings.Count(string(data), parts[1]))
			os.Exit(2)
		}
		ov = map[string][]byte{path: []byte(strings.Replace(string(data), parts[1], parts[2], 1))}
	}
	eng, err := loadEngine(*repo, fs.Args(), ov)
	if err != nil {
		fmt.Println("ERROR:", err)
		os.Exit(2)
	}
	fmt.Printf("loaded in %.1fs\n", time.Since(t0).Seconds())
	for _, d := range eng.drift {
		fmt.Println("DRIFT:", d)
	}
	var frs []*FuncResult
	for _, sp := range eng.specList {
		if sp.Assume || sp.Ghost || (sp.Inline && !sp.IsProc && len(sp.Ensures) == 0) {
			continue
		}
		if *only != "" && !strings.Contains(sp.Name, *only) {
			continue
		}
		if eng.requested != nil && !eng.requested[sp.PkgPath] {
			continue
		}
		t1 := time.Now()
		fr := eng.verifyFunc(sp)
		fmt.Printf("vcgen %s: %d obligations, %.2fs %s\n", fr.Name, len(fr.Obls), time.Since(t1).Seconds(), fr.Err)
		frs = append(frs, fr)
	}
	sv := &Solvers{Timeout: time.Duration(*timeout) * time.Second, Parallel: 8}
	eng.discharge(frs, sv, nil)
	bad := 0
	for _, fr := range frs {
		fmt.Printf("== %s  (blocks %d, instrs %d)\n", fr.Name, fr.Blocks, fr.Instrs)
		if fr.Err != "" {
			fmt.Printf("   OUTSIDE SUBSET: %s\n", fr.Err)
			bad++
			continue
		}
		for _, or := range fr.Obls {
			mark := "ok  "
			if or.Status != "proved" {
				mark = "FAIL"
				bad++
			}
			fmt.Printf("   %s %-8s %-10s %6.2fs %s %s\n", mark, or.Status, or.Solver, or.TimeS, or.Name, or.PosStr)
			if or.Status != "proved" && *verbose {
				keys := make([]string, 0, len(or.Model))
				for k := range or.Model {
					keys = append(keys, k)
				}
				sort.Strings(keys)
				for _, k := range keys {
					fmt.Printf("        %s = %s\n", k, or.Model[k])
				}
				if or.Status == "unknown" {
					fmt.Printf("        %s\n", strings.ReplaceAll(strings.TrimSpace(or.Output), "\n", "\n        "))
				}
			}
			if or.Status != "proved" && *dump != "" {
				os.MkdirAll(*dump, 0o755)
				os.WriteFile(*dump+"/"+sanitizeIdent(or.Name)+".smt2", []byte(ExactQuery(or.Query)), 0o644)
			}
		}
		var ns []string
		for n, k := range fr.Notes {
			ns = append(ns, fmt.Sprintf("%s x%d", n, k))
		}
		sort.Strings(ns)
		for _, n := range ns {
			fmt.Printf("   note: %s\n", n)
		}
		for _, a := range fr.Assumed {
			fmt.Printf("   assumed: %s\n", a)
		}
	}
	fmt.Printf("total %.1fs, problems: %d\n", time.Since(t0).Seconds(), bad)
}

