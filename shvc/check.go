package main

// `shvc check`: decide one property = regenerate the obligations of the
// functions listed for it from /repo's working tree, discharge them, compare
// with the claimed list, write evidence, print VIOLATION / KNOWN-FINDING lines.

import (
	"encoding/json"
	"flag"
	"fmt"
	"os"
	"path/filepath"
	"sort"
	"strconv"
	"strings"
	"time"
)

type PropConfig struct {
	ID        string   `json:"id"`
	Packages  []string `json:"packages"`
	Functions []string `json:"functions"` // display names (pkg.Name as in contract files); empty = every contract in the packages
	Note      string   `json:"note"`
	Selftest  []Mutant `json:"selftest"`
}

type Mutant struct {
	Name    string `json:"name"`
	File    string `json:"file"`
	Find    string `json:"find"`
	Replace string `json:"replace"`
	Expect  string `json:"expect"` // substring of an obligation name that must fail ("" = any)
	Harmless bool  `json:"harmless"`
}

type KnownFinding struct {
	Kind       string `json:"kind"` // finding | fixed
	Property   string `json:"property"`
	Obligation string `json:"obligation"`
	What       string `json:"what"`
	Witness    string `json:"witness"`
	Commit      string `json:"commit,omitempty"`
	WitnessTest string `json:"witness_test,omitempty"`
	WitnessPkg  string `json:"witness_pkg,omitempty"`
}

type Expected struct {
	Property    string   `json:"property"`
	Obligations []string `json:"obligations"`
	// obligations that did not discharge (or only slowly) at baseline: never claimed; the quick tier does not
	// spend solver time on them again, the thorough tier does
	Unclaimed []string `json:"unclaimed,omitempty"`
}

func verifRoot() string {
	if r := os.Getenv("VERIF_ROOT"); r != "" {
		return r
	}
	exe, err := os.Executable()
	if err == nil {
		d := filepath.Dir(filepath.Dir(exe))
		if _, err := os.Stat(filepath.Join(d, "props")); err == nil {
			return d
		}
	}
	return "/verif"
}

func loadProp(root, id string) (*PropConfig, error) {
	data, err := os.ReadFile(filepath.Join(root, "props", id+".json"))
	if err != nil {
		return nil, err
	}
	var pc PropConfig
	if err := json.Unmarshal(data, &pc); err != nil {
		return nil, err
	}
	return &pc, nil
}

func loadExpected(root, id string) map[string]bool {
	m := map[string]bool{}
	data, err := os.ReadFile(filepath.Join(root, "contracts", "expected", id+".json"))
	if err != nil {
		return m
	}
	var ex Expected
	if json.Unmarshal(data, &ex) == nil {
		for _, o := range ex.Obligations {
			m[o] = true
		}
	}
	return m
}

var baselineMode bool

func loadUnclaimed(root, id string) map[string]bool {
	m := map[string]bool{}
	data, err := os.ReadFile(filepath.Join(root, "contracts", "expected", id+".json"))
	if err != nil {
		return m
	}
	var ex Expected
	if json.Unmarshal(data, &ex) == nil {
		for _, o := range ex.Unclaimed {
			m[o] = true
		}
	}
	return m
}

func loadFindings(root string) []KnownFinding {
	data, err := os.ReadFile(filepath.Join(root, "known_findings.json"))
	if err != nil {
		return nil
	}
	var kf struct {
		Findings []KnownFinding `json:"findings"`
	}
	json.Unmarshal(data, &kf)
	return kf.Findings
}

// labelled kinds are named by contract labels and must exist on every run; text-named kinds may come and go with harmless edits.
func labelledKind(name string) bool {
	i := strings.Index(name, "#")
	if i < 0 {
		return true
	}
	k := name[i+1:]
	for _, p := range []string{"post:", "pre:", "inv-init:", "inv-step:", "dec:", "assert:", "reach:", "cover:", "frame:"} {
		if strings.HasPrefix(k, p) || strings.Contains(k, "/"+p) {
			return true
		}
	}
	return false
}

type runOutcome struct {
	curNames   map[string]FuncNames
	frs        []*FuncResult
	violations []violation
	known      []string
	notes      []string
	undecided  string
	obligs     int
	discharged int
	byBackend  map[string]int
	solverTime float64
	samples    []map[string]interface{}
	assumed    []string
	funcs      []map[string]interface{}
	unclaimed  int
	skipped    int
	loadS      float64
}

type violation struct {
	obligation string
	reason     string
	replay     string
	noInput    bool
	replayed   bool
}

func selectSpecs(eng *Engine, pc *PropConfig) ([]*FuncSpec, error) {
	var out []*FuncSpec
	want := map[string]bool{}
	for _, f := range pc.Functions {
		want[f] = true
	}
	found := map[string]bool{}
	for _, sp := range eng.specList {
		if sp.Assume || sp.Ghost || (sp.Inline && !sp.IsProc && len(sp.Ensures) == 0 && len(sp.Requires) == 0) {
			continue
		}
		dn := eng.displayName(sp)
		if len(want) > 0 && !want[dn] {
			continue
		}
		if len(want) == 0 && eng.requested != nil && !eng.requested[sp.PkgPath] {
			continue
		}
		found[dn] = true
		out = append(out, sp)
	}
	for f := range want {
		if !found[f] {
			return nil, fmt.Errorf("function under contract %s not found (contract missing or target removed)", f)
		}
	}
	return out, nil
}

func runProperty(root, repo string, pc *PropConfig, tier string, seed int, overlay map[string][]byte, quiet bool) *runOutcome {
	ro := &runOutcome{byBackend: map[string]int{}}
	t0 := time.Now()
	namesPath = filepath.Join(root, "contracts", "names.json")
	eng, err := loadEngine(repo, pc.Packages, overlay)
	if err != nil {
		ro.undecided = err.Error()
		return ro
	}
	ro.loadS = time.Since(t0).Seconds()
	ro.curNames = eng.curNames
	for _, r := range eng.renameNotes {
		ro.notes = append(ro.notes, "NOTE "+r)
	}
	for _, d := range eng.drift {
		ro.notes = append(ro.notes, "NOTE contract anchor lost: "+d)
	}
	specs, err := selectSpecs(eng, pc)
	if err != nil {
		ro.undecided = err.Error()
		return ro
	}
	expected := loadExpected(root, pc.ID)
	for _, sp := range specs {
		fr := eng.verifyFunc(sp)
		ro.frs = append(ro.frs, fr)
	}
	timeout := 10 * time.Second
	if tier == "thorough" {
		timeout = 60 * time.Second
	}
	sv := &Solvers{Timeout: timeout, Parallel: 8, Seed: seed, All: tier == "thorough"}
	var only func(string) bool
	knownUnclaimed := loadUnclaimed(root, pc.ID)
	if !baselineMode && len(knownUnclaimed) > 0 {
		only = func(name string) bool { return !knownUnclaimed[name] }
	}
	eng.discharge(ro.frs, sv, only)
	if !baselineMode {
		// a claimed obligation that came back "unknown" (no model) is tried again with other seeds and three times
		// the time before it is reported: solver timing is not a property of the code
		for attempt := 1; attempt <= 2; attempt++ {
			retry := map[string]bool{}
			for _, fr := range ro.frs {
				for _, or := range fr.Obls {
					if or.Status == "unknown" && expected[or.Name] {
						retry[or.Name] = true
						or.Status = "skipped"
					}
				}
			}
			if len(retry) == 0 {
				break
			}
			sv3 := &Solvers{Timeout: 3 * timeout, Parallel: 8, Seed: seed + 100*attempt}
			eng.discharge(ro.frs, sv3, func(name string) bool { return retry[name] })
			for _, fr := range ro.frs {
				for _, or := range fr.Obls {
					if retry[or.Name] && or.Status == "skipped" {
						or.Status = "unknown"
					}
				}
			}
			ro.notes = append(ro.notes, fmt.Sprintf("NOTE %d claimed obligation(s) answered unknown and were retried (attempt %d)", len(retry), attempt))
		}
	}
	if tier == "thorough" && !baselineMode && len(knownUnclaimed) > 0 {
		// obligations that did not discharge at baseline are tried again, but with the short timeout: they decide
		// nothing, they are only reported
		sv2 := &Solvers{Timeout: 10 * time.Second, Parallel: 8, Seed: seed}
		eng.discharge(ro.frs, sv2, func(name string) bool { return knownUnclaimed[name] })
	}
	for _, d := range sv.Disagree {
		ro.violations = append(ro.violations, violation{obligation: "solver-disagreement", reason: d, noInput: true})
	}
	findings := loadFindings(root)
	var newSafety []string
	seen := map[string]bool{}
	assumed := map[string]bool{}
	for _, fr := range ro.frs {
		fi := map[string]interface{}{"function": fr.Name, "blocks": fr.Blocks, "instructions": fr.Instrs}
		if fr.Err != "" {
			fi["outside_subset"] = fr.Err
			// a function that was verified at baseline and is now outside the subset: undecided
			hadClaims := false
			for o := range expected {
				if strings.HasPrefix(o, fr.Name+"#") {
					hadClaims = true
				}
			}
			if hadClaims {
				ro.undecided = fmt.Sprintf("%s is outside the verifiable subset on this tree: %s", fr.Name, fr.Err)
			}
			ro.funcs = append(ro.funcs, fi)
			continue
		}
		var ns []string
		for n, k := range fr.Notes {
			ns = append(ns, fmt.Sprintf("%s (x%d)", n, k))
		}
		sort.Strings(ns)
		fi["abstractions"] = ns
		ro.funcs = append(ro.funcs, fi)
		for _, a := range fr.Assumed {
			assumed[a] = true
		}
		for _, or := range fr.Obls {
			seen[or.Name] = true
			claimed := expected[or.Name]
			if !claimed && labelledKind(or.Name) && !knownUnclaimed[or.Name] {
				// a further instance (#n) of a claimed labelled obligation, e.g. a second back edge of the same loop
				// after the code changed, stands under the same claim
				if i := strings.LastIndex(or.Name, "#"); i > strings.Index(or.Name, "#") {
					if _, err := strconv.Atoi(or.Name[i+1:]); err == nil && expected[or.Name[:i]] {
						claimed = true
					}
				}
			}
			or.Claimed = claimed
			ro.solverTime += or.TimeS
			var kf *KnownFinding
			for i := range findings {
				if findings[i].Kind == "finding" && findings[i].Property == pc.ID && findings[i].Obligation == or.Name {
					kf = &findings[i]
				}
			}
			if kf != nil {
				if or.Status == "proved" {
					ro.notes = append(ro.notes, fmt.Sprintf("NOTE stale known finding: %s now discharges", or.Name))
				} else {
					ro.known = append(ro.known, fmt.Sprintf("KNOWN-FINDING: property=%s %s %s", pc.ID, or.Name, kf.What))
				}
				continue
			}
			if claimed {
				ro.obligs++
				if or.Status == "proved" {
					ro.discharged++
					ro.byBackend[or.Solver]++
					if len(ro.samples) < 12 {
						ro.samples = append(ro.samples, map[string]interface{}{"obligation": or.Name, "verdict": "discharged", "solver": or.Solver, "time_s": round3(or.TimeS), "at": or.PosStr})
					}
				} else {
					v := violation{obligation: or.Name, reason: or.Status + " (" + or.Solver + ")", noInput: true}
					ro.violations = append(ro.violations, v)
				}
			} else {
				ro.unclaimed++
				if or.Status == "skipped" {
					ro.skipped++
					if !labelledKind(or.Name) {
						assumed["run-time check not proved, assumed (partial correctness): "+or.Name] = true
					}
				} else if or.Status != "proved" {
					if !quiet {
						ro.notes = append(ro.notes, fmt.Sprintf("NOTE undischarged-unclaimed-obligation %s (%s)", or.Name, or.Status))
					}
					// a run-time check that did not exist at baseline (the code changed) and that a solver refutes:
					// a violation only if the model panics the real code when replayed
					if !baselineMode && or.Status == "failed" && len(or.Model) > 0 && !knownUnclaimed[or.Name] && strings.Contains(or.Name, "#safe-") && !strings.Contains(or.Name, "/") {
						newSafety = append(newSafety, or.Name)
					}
					if !labelledKind(or.Name) {
						assumed["run-time check not proved, assumed (partial correctness): "+or.Name] = true
					}
				}
			}
		}
	}
	for _, name := range newSafety {
		v := violation{obligation: name, reason: "new run-time check refuted (failed)", noInput: true}
		eng.writeReplay(root, pc.ID, &v, ro.frs)
		if !v.noInput {
			v.replayed = true
			ro.obligs++
			ro.violations = append(ro.violations, v)
		} else {
			ro.notes = append(ro.notes, "NOTE new run-time check refuted by a solver but not reproduced on the real code: "+name)
		}
	}
	// claimed obligations that were not regenerated
	var missing []string
	for o := range expected {
		if !seen[o] {
			missing = append(missing, o)
		}
	}
	sort.Strings(missing)
	for _, o := range missing {
		if labelledKind(o) {
			ro.obligs++
			ro.violations = append(ro.violations, violation{obligation: "vacuity:missing:" + o, reason: "claimed obligation was not generated from the current tree", noInput: true})
		} else {
			ro.notes = append(ro.notes, "NOTE claimed text-named obligation no longer generated (source expression changed): "+o)
		}
	}
	if len(expected) == 0 {
		ro.violations = append(ro.violations, violation{obligation: "vacuity:no-claims", reason: "no obligations are claimed for this property", noInput: true})
	}
	for a := range assumed {
		ro.assumed = append(ro.assumed, a)
	}
	sort.Strings(ro.assumed)
	// replay of counterexamples
	for i := range ro.violations {
		v := &ro.violations[i]
		if v.replayed {
			continue
		}
		eng.writeReplay(root, pc.ID, v, ro.frs)
	}
	return ro
}

func round3(f float64) float64 { return float64(int(f*1000+0.5)) / 1000 }

func checkMain(args []string) {
	fs := flag.NewFlagSet("check", flag.ExitOnError)
	repo := fs.String("repo", "/repo", "repository root")
	prop := fs.String("prop", "", "property id")
	tier := fs.String("tier", "quick", "quick|thorough")
	baseline := fs.Bool("baseline", false, "write contracts/expected/<id>.json from what discharges now")
	fs.Parse(args)
	root := verifRoot()
	if t := os.Getenv("VERIF_TIER"); t != "" && *tier == "" {
		*tier = t
	}
	seed, _ := strconv.Atoi(os.Getenv("VERIF_SEED"))
	pc, err := loadProp(root, *prop)
	if err != nil {
		fmt.Printf("UNDECIDED property=%s reason=%v\n", *prop, err)
		os.Exit(2)
	}
	t0 := time.Now()
	os.RemoveAll(filepath.Join(root, "replay", pc.ID))
	baselineMode = *baseline
	ro := runProperty(root, *repo, pc, *tier, seed, nil, false)
	if *baseline {
		for _, n := range ro.notes {
			if strings.HasPrefix(n, "NOTE contract anchor lost") {
				fmt.Println("cannot baseline:", n)
				os.Exit(2)
			}
		}
		if ro.undecided != "" {
			fmt.Println("cannot baseline:", ro.undecided)
			os.Exit(2)
		}
		// every assertion clause must have produced an obligation: a site the executor never reaches (dead in the
		// model) would otherwise be silently unchecked
		for _, fr := range ro.frs {
			if fr.Spec == nil || fr.Err != "" {
				continue
			}
			for _, a := range fr.Spec.Asserts {
				if a.Dead || a.Assume {
					continue
				}
				found := false
				for _, or := range fr.Obls {
					if strings.Contains(or.Name, "#assert:"+a.Clause.Label) || strings.Contains(or.Name, "/assert:"+a.Clause.Label) {
						found = true
					}
				}
				if !found {
					fmt.Printf("cannot baseline: %s: assertion %s produced no obligation (its site is unreachable in the model)\n", fr.Name, a.Clause.Label)
					os.Exit(2)
				}
			}
		}
		var names, unclaimed []string
		findings := loadFindings(root)
		for _, fr := range ro.frs {
			for _, or := range fr.Obls {
				isF := false
				for _, f := range findings {
					if f.Kind == "finding" && f.Obligation == or.Name {
						isF = true
					}
				}
				if or.Status == "proved" && or.TimeS < 6 || isF {
					names = append(names, or.Name)
				} else {
					unclaimed = append(unclaimed, or.Name)
					fmt.Printf("not claimed: %s (%s, %.1fs)\n", or.Name, or.Status, or.TimeS)
				}
			}
		}
		sort.Strings(names)
		sort.Strings(unclaimed)
		data, _ := json.MarshalIndent(Expected{Property: pc.ID, Obligations: names, Unclaimed: unclaimed}, "", " ")
		os.MkdirAll(filepath.Join(root, "contracts", "expected"), 0o755)
		os.WriteFile(filepath.Join(root, "contracts", "expected", pc.ID+".json"), append(data, '\n'), 0o644)
		fmt.Printf("baseline: %d obligations claimed for %s\n", len(names), pc.ID)
		// the names of parameters and locals the contracts were written against
		all := map[string]FuncNames{}
		if data, err := os.ReadFile(namesPath); err == nil {
			json.Unmarshal(data, &all)
		}
		for k, v := range ro.curNames {
			all[k] = v
		}
		nd, _ := json.MarshalIndent(all, "", " ")
		os.WriteFile(namesPath, append(nd, '\n'), 0o644)
		return
	}
	wall := time.Since(t0).Seconds()
	if ro.undecided != "" {
		fmt.Printf("UNDECIDED property=%s reason=%s\n", pc.ID, ro.undecided)
		writeEvidence(root, pc, ro, *tier, seed, wall)
		os.Exit(2)
	}
	if *tier == "thorough" && len(pc.Selftest) > 0 {
		runSelftest(root, *repo, pc, ro)
	}
	wall = time.Since(t0).Seconds()
	writeEvidence(root, pc, ro, *tier, seed, wall)
	for _, n := range ro.notes {
		fmt.Println(n)
	}
	for _, k := range ro.known {
		fmt.Println(k)
	}
	fmt.Printf("property %s: %d/%d claimed obligations discharged, %d unclaimed, %d violations, %.1fs (load %.1fs, solvers %.1fs cpu)\n",
		pc.ID, ro.discharged, ro.obligs, ro.unclaimed, len(ro.violations), wall, ro.loadS, ro.solverTime)
	if len(ro.violations) > 0 {
		for _, v := range ro.violations {
			suffix := ""
			if v.noInput {
				suffix = " no-failing-input-found"
			}
			fmt.Printf("VIOLATION property=%s replay=%s obligation=%s%s\n", pc.ID, v.replay, v.obligation, suffix)
		}
		os.Exit(1)
	}
}

func writeEvidence(root string, pc *PropConfig, ro *runOutcome, tier string, seed int, wall float64) {
	trusted := []string{"go/packages + go/ssa (x/tools v0.29.0) as the meaning of the source", "shvc VC generator (guarded by the must-fail and harmless-edit corpora)", "z3 5.1.0, z3 4.8.12, cvc5 1.0"}
	cov := map[string]interface{}{
		"obligations":              ro.obligs,
		"discharged":               ro.discharged,
		"checker_cmd":              fmt.Sprintf("/verif/check %s %s", pc.ID, tier),
		"trusted_base":             trusted,
		"functions_under_contract": ro.funcs,
		"by_backend":               ro.byBackend,
		"solver_time_s":            round3(ro.solverTime),
		"unclaimed_obligations":    ro.unclaimed,
		"unclaimed_not_attempted":  ro.skipped,
		"samples":                  ro.samples,
		"known_findings":           ro.known,
		"notes":                    ro.notes,
	}
	if ro.undecided != "" {
		cov["undecided"] = ro.undecided
	}
	var vs []map[string]interface{}
	for _, v := range ro.violations {
		vs = append(vs, map[string]interface{}{"obligation": v.obligation, "reason": v.reason, "replay": v.replay, "failing_input_found": !v.noInput})
	}
	if len(vs) > 0 {
		cov["violated_obligations"] = vs
	}
	ev := map[string]interface{}{
		"property_id": pc.ID,
		"tier":        tier,
		"seed":        seed,
		"level":       "proof",
		"coverage":    cov,
		"assumptions": append([]string{"sequential semantics inside a function; lock discipline and data-race freedom are not checked", "slice capacities below 2^40"}, ro.assumed...),
		"wall_s":      round3(wall),
		"violations":  len(ro.violations),
	}
	data, _ := json.MarshalIndent(ev, "", " ")
	os.MkdirAll(filepath.Join(root, "evidence"), 0o755)
	os.WriteFile(filepath.Join(root, "evidence", pc.ID+".json"), append(data, '\n'), 0o644)
}

// runSelftest applies each must-fail edit in memory and requires a violation at the named obligation.
func runSelftest(root, repo string, pc *PropConfig, ro *runOutcome) {
	for _, m := range pc.Selftest {
		path := filepath.Join(repo, m.File)
		data, err := os.ReadFile(path)
		if err != nil {
			ro.notes = append(ro.notes, "NOTE selftest "+m.Name+": cannot read "+m.File)
			continue
		}
		if strings.Count(string(data), m.Find) != 1 {
			ro.notes = append(ro.notes, fmt.Sprintf("NOTE selftest %s: pattern occurs %d times in %s (source changed; mutant skipped)", m.Name, strings.Count(string(data), m.Find), m.File))
			continue
		}
		ov := map[string][]byte{path: []byte(strings.Replace(string(data), m.Find, m.Replace, 1))}
		r := runPropertyWithRoot(root, repo, pc, ov)
		hit := false
		for _, v := range r.violations {
			if m.Expect == "" || strings.Contains(v.obligation, m.Expect) {
				hit = true
			}
		}
		switch {
		case m.Harmless && (len(r.violations) > 0 || r.undecided != ""):
			ro.violations = append(ro.violations, violation{obligation: "selftest:harmless:" + m.Name, reason: "harmless edit raised an alarm", noInput: true})
		case !m.Harmless && !hit:
			ro.violations = append(ro.violations, violation{obligation: "selftest:must-fail:" + m.Name, reason: "seeded defect not detected at " + m.Expect + " (undecided: " + r.undecided + ")", noInput: true})
		default:
			ro.notes = append(ro.notes, "selftest ok: "+m.Name)
		}
	}
}

func runPropertyWithRoot(root, repo string, pc *PropConfig, ov map[string][]byte) *runOutcome {
	// replays of mutants must not overwrite real replays: suppress by marking quiet and redirecting replay dir
	os.Setenv("SHVC_NO_REPLAY", "1")
	defer os.Unsetenv("SHVC_NO_REPLAY")
	return runProperty(root, repo, pc, "quick", 0, ov, true)
}

func selftestMain(args []string) {
	fs := flag.NewFlagSet("selftest", flag.ExitOnError)
	repo := fs.String("repo", "/repo", "repository root")
	prop := fs.String("prop", "", "property id")
	fs.Parse(args)
	root := verifRoot()
	pc, err := loadProp(root, *prop)
	if err != nil {
		fmt.Println(err)
		os.Exit(2)
	}
	ro := &runOutcome{}
	runSelftest(root, *repo, pc, ro)
	for _, n := range ro.notes {
		fmt.Println(n)
	}
	for _, v := range ro.violations {
		fmt.Println("SELFTEST FAILURE:", v.obligation, v.reason)
	}
	if len(ro.violations) > 0 {
		os.Exit(1)
	}
}
