package main

import (
	"fmt"
	"go/constant"
	"go/token"
	"go/types"
	"math"
	"math/big"

	"golang.org/x/tools/go/ssa"
)

func pow2(n uint) *big.Int { return new(big.Int).Lsh(big.NewInt(1), n) }

// wrap reduces a mathematical integer to the representable range of ty (two's complement).
func (e *Exec) wrap(t *Term, ty types.Type) *Term {
	c := e.c
	b, ok := ty.Underlying().(*types.Basic)
	if !ok {
		return t
	}
	lo, hi, ok := intRange(b)
	if !ok {
		return t
	}
	if v, isLit := litInt(t); isLit {
		m := new(big.Int).Sub(hi, lo)
		m.Add(m, big.NewInt(1))
		r := new(big.Int).Sub(v, lo)
		r.Mod(r, m)
		r.Add(r, lo)
		return c.BigInt(r)
	}
	bits := intBits(ty)
	if isUnsigned(ty) {
		return c.Mod(t, c.BigInt(pow2(bits)))
	}
	half := c.BigInt(pow2(bits - 1))
	return c.Sub(c.Mod(c.Add(t, half), c.BigInt(pow2(bits))), half)
}

func (e *Exec) inRange(t *Term, ty types.Type) *Term {
	return e.tm.RangeFact(t, ty)
}

func (e *Exec) declTDiv() {
	e.c.DeclareFun("tdiv", "(define-fun tdiv ((a Int) (b Int)) Int (ite (>= a 0) (ite (> b 0) (div a b) (- (div a (- b)))) (ite (> b 0) (- (div (- a) b)) (div (- a) (- b)))))")
	e.c.DeclareFun("tmod", "(define-fun tmod ((a Int) (b Int)) Int (- a (* b (tdiv a b))))", "tdiv")
}

func (e *Exec) declPow2() {
	s := "(define-fun pow2 ((x Int)) Int "
	for i := 0; i < 64; i++ {
		s += fmt.Sprintf("(ite (= x %d) %s ", i, pow2(uint(i)).String())
	}
	s += pow2(64).String()
	for i := 0; i < 64; i++ {
		s += ")"
	}
	s += ")"
	e.c.DeclareFun("pow2", s)
}

func (e *Exec) fpOp(op string, a, b *Term) *Term {
	c := e.c
	if a.sort == "Real" {
		switch op {
		case "fp.add":
			return c.App("+", "Real", a, b)
		case "fp.sub":
			return c.App("-", "Real", a, b)
		case "fp.mul":
			return c.App("*", "Real", a, b)
		case "fp.div":
			return c.App("/", "Real", a, b)
		}
	}
	return c.App(op, a.sort, c.Lit("RNE", "RoundingMode"), a, b)
}

func (e *Exec) fpCmp(op token.Token, a, b *Term) *Term {
	c := e.c
	if a.sort == "Real" {
		switch op {
		case token.LSS:
			return c.App("<", "Bool", a, b)
		case token.LEQ:
			return c.App("<=", "Bool", a, b)
		case token.GTR:
			return c.App(">", "Bool", a, b)
		case token.GEQ:
			return c.App(">=", "Bool", a, b)
		case token.EQL:
			return c.Eq(a, b)
		case token.NEQ:
			return c.Not(c.Eq(a, b))
		}
	}
	switch op {
	case token.LSS:
		return c.App("fp.lt", "Bool", a, b)
	case token.LEQ:
		return c.App("fp.leq", "Bool", a, b)
	case token.GTR:
		return c.App("fp.gt", "Bool", a, b)
	case token.GEQ:
		return c.App("fp.geq", "Bool", a, b)
	case token.EQL:
		return c.App("fp.eq", "Bool", a, b)
	case token.NEQ:
		return c.Not(c.App("fp.eq", "Bool", a, b))
	}
	panic("fpCmp")
}

func (e *Exec) binop(st *State, ins ssa.Instruction, op token.Token, av, bv Val, at, bt, rt types.Type) *Term {
	c := e.c
	a, b := av.T, bv.T
	if a == nil || b == nil {
		// comparison of static pointers / closures with nil
		if op == token.EQL || op == token.NEQ {
			res := false
			if (av.P != nil || av.Clo != nil) && b != nil {
				res = false // a static pointer is never nil
			} else if (bv.P != nil || bv.Clo != nil) && a != nil {
				res = false
			} else if av.P != nil && bv.P != nil {
				e.fail("comparison of static pointers")
			}
			if op == token.NEQ {
				res = !res
			}
			return c.Bool(res)
		}
		e.fail("binop %s on non-term operands", op)
	}
	switch {
	case isFloat(at):
		switch op {
		case token.ADD:
			return e.fpOp("fp.add", a, b)
		case token.SUB:
			return e.fpOp("fp.sub", a, b)
		case token.MUL:
			return e.fpOp("fp.mul", a, b)
		case token.QUO:
			return e.fpOp("fp.div", a, b)
		default:
			return e.fpCmp(op, a, b)
		}
	case isString(at):
		e.tm.declStr()
		switch op {
		case token.ADD:
			c.DeclareFun("str.cat", "(declare-fun str.cat (Str Str) Str)")
			t := c.App("str.cat", "Str", a, b)
			if !t.bound {
				c.AddFact(t, c.Eq(c.App("str.len", "Int", t), c.Add(e.strLen(a), e.strLen(b))))
			}
			return t
		case token.EQL:
			return c.Eq(a, b)
		case token.NEQ:
			return c.Not(c.Eq(a, b))
		default:
			c.DeclareFun("str.cmp", "(declare-fun str.cmp (Str Str) Int)")
			cmp := c.App("str.cmp", "Int", a, b)
			switch op {
			case token.LSS:
				return c.Lt(cmp, c.Int(0))
			case token.LEQ:
				return c.Le(cmp, c.Int(0))
			case token.GTR:
				return c.Gt(cmp, c.Int(0))
			case token.GEQ:
				return c.Ge(cmp, c.Int(0))
			}
		}
	case isBool(at):
		switch op {
		case token.EQL:
			return c.Eq(a, b)
		case token.NEQ:
			return c.Not(c.Eq(a, b))
		case token.LAND:
			return c.And(a, b)
		case token.LOR:
			return c.Or(a, b)
		}
	case isInteger(at):
		return e.intBinop(st, ins, op, a, b, at, bt, rt)
	}
	// everything else: pointers, structs, arrays, interfaces...
	switch op {
	case token.EQL:
		if a.sort == "Slice" {
			// only comparison with nil is legal
			return c.Eq(e.tm.SliceBase(a), e.tm.SliceBase(b))
		}
		return c.Same(a, b)
	case token.NEQ:
		if a.sort == "Slice" {
			return c.Not(c.Eq(e.tm.SliceBase(a), e.tm.SliceBase(b)))
		}
		return c.Not(c.Same(a, b))
	}
	e.fail("binop %s on %s", op, at)
	return nil
}

func (e *Exec) uf2(name string, a, b *Term) *Term {
	e.c.DeclareFun(name, fmt.Sprintf("(declare-fun %s (Int Int) Int)", name))
	return e.c.App(name, "Int", a, b)
}

// singleBit: the literal 2^k
func singleBit(t *Term) (uint, bool) {
	v, ok := litInt(t)
	if !ok || v.Sign() <= 0 {
		return 0, false
	}
	k := uint(v.BitLen() - 1)
	if pow2(k).Cmp(v) == 0 {
		return k, true
	}
	return 0, false
}

// bitOf: bit k of the non-negative integer x, as 0 or 1
func (e *Exec) bitOf(x *Term, k uint) *Term {
	if b := e.knownBit(x, k, 0); b != nil {
		return b
	}
	return e.c.Mod(e.c.Div(x, e.c.BigInt(pow2(k))), e.c.Int(2))
}

// bitInfo: the term equals base with the listed bits forced (field-mask arithmetic x | 2^k, x &^ 2^k).
type bitInfo struct {
	base *Term
	set  map[uint]*Term // bit -> Int 0/1
}

func (e *Exec) recordBits(r, base *Term, k uint, v *Term) {
	if e.bits == nil {
		e.bits = map[int]*bitInfo{}
	}
	e.bits[strip(r).id] = &bitInfo{base: base, set: map[uint]*Term{k: v}}
}

// knownBit resolves bit k of x symbolically through mask updates, literals, ite and read-over-write.
func (e *Exec) knownBit(x *Term, k uint, depth int) *Term {
	c := e.c
	if depth > 64 {
		return nil
	}
	s := strip(x)
	if v, ok := litInt(s); ok && v.Sign() >= 0 {
		return c.Int(int64(v.Bit(int(k))))
	}
	if bi, ok := e.bits[s.id]; ok {
		if b, ok := bi.set[k]; ok {
			return b
		}
		if b := e.knownBit(bi.base, k, depth+1); b != nil {
			return b
		}
		return c.Mod(c.Div(bi.base, c.BigInt(pow2(k))), c.Int(2))
	}
	if s.kind != kApp {
		return nil
	}
	switch s.op {
	case "ite":
		a := e.knownBit(s.args[1], k, depth+1)
		b := e.knownBit(s.args[2], k, depth+1)
		if a == nil && b == nil {
			return nil
		}
		if a == nil {
			a = c.Mod(c.Div(s.args[1], c.BigInt(pow2(k))), c.Int(2))
		}
		if b == nil {
			b = c.Mod(c.Div(s.args[2], c.BigInt(pow2(k))), c.Int(2))
		}
		return c.Ite(s.args[0], a, b)
	case "select":
		arr := strip(s.args[0])
		if arr.kind == kApp && arr.op == "ite" {
			a := e.knownBit(c.Select(arr.args[1], s.args[1]), k, depth+1)
			b := e.knownBit(c.Select(arr.args[2], s.args[1]), k, depth+1)
			if a == nil && b == nil {
				return nil
			}
			if a == nil {
				a = c.Mod(c.Div(c.Select(arr.args[1], s.args[1]), c.BigInt(pow2(k))), c.Int(2))
			}
			if b == nil {
				b = c.Mod(c.Div(c.Select(arr.args[2], s.args[1]), c.BigInt(pow2(k))), c.Int(2))
			}
			return c.Ite(arr.args[0], a, b)
		}
	}
	return nil
}

func isPow2Minus1(v *big.Int) (uint, bool) {
	if v.Sign() <= 0 {
		return 0, false
	}
	w := new(big.Int).Add(v, big.NewInt(1))
	if w.BitLen()-1 >= 0 && new(big.Int).Lsh(big.NewInt(1), uint(w.BitLen()-1)).Cmp(w) == 0 {
		return uint(w.BitLen() - 1), true
	}
	return 0, false
}

func (e *Exec) intBinop(st *State, ins ssa.Instruction, op token.Token, a, b *Term, at, bt, rt types.Type) *Term {
	c := e.c
	uns := isUnsigned(at)
	arith := func(r *Term) *Term {
		if uns {
			return e.wrap(r, rt)
		}
		if e.pure > 0 {
			return r // spec arithmetic on signed integers is mathematical
		}
		ok := e.inRange(r, rt)
		if e.eng.cfgOverflow(e.top) {
			e.oblige(st, "nooverflow", "nooverflow:"+e.eng.srcText(ins), ok, ins.Pos())
		} else {
			if !isTrue(ok) {
				e.assumed["signed integer arithmetic assumed not to overflow (machine arithmetic treated as mathematical)"] = true
			}
			e.assume(st, ok)
		}
		return r
	}
	switch op {
	case token.ADD:
		return arith(c.Add(a, b))
	case token.SUB:
		return arith(c.Sub(a, b))
	case token.MUL:
		return arith(c.Mul(a, b))
	case token.QUO, token.REM:
		if ins != nil {
			e.check(st, "safe-div", ins, c.Not(c.Eq(b, c.Int(0))))
		}
		if uns {
			if op == token.QUO {
				return c.Div(a, b)
			}
			return c.Mod(a, b)
		}
		// signed: truncated; fast paths for literal positive divisor
		e.declTDiv()
		if op == token.QUO {
			return c.App("tdiv", "Int", a, b)
		}
		return c.App("tmod", "Int", a, b)
	case token.EQL:
		return c.Eq(a, b)
	case token.NEQ:
		return c.Not(c.Eq(a, b))
	case token.LSS:
		return c.Lt(a, b)
	case token.LEQ:
		return c.Le(a, b)
	case token.GTR:
		return c.Gt(a, b)
	case token.GEQ:
		return c.Ge(a, b)
	case token.SHL:
		if v, ok := litInt(b); ok && v.IsInt64() && v.Int64() < 64 {
			return e.wrap(c.Mul(a, c.BigInt(pow2(uint(v.Int64())))), rt)
		}
		e.declPow2()
		return e.wrap(c.Mul(a, c.App("pow2", "Int", b)), rt)
	case token.SHR:
		if v, ok := litInt(b); ok && v.IsInt64() && v.Int64() < 64 {
			return c.Div(a, c.BigInt(pow2(uint(v.Int64()))))
		}
		e.declPow2()
		return c.Div(a, c.App("pow2", "Int", b))
	case token.AND:
		if uns {
			if k, ok := singleBit(b); ok {
				return c.Mul(c.BigInt(pow2(k)), e.bitOf(a, k))
			}
			if k, ok := singleBit(a); ok {
				return c.Mul(c.BigInt(pow2(k)), e.bitOf(b, k))
			}
		}
		if v, ok := litInt(b); ok {
			if k, ok := isPow2Minus1(v); ok {
				if uns {
					return c.Mod(a, c.BigInt(pow2(k)))
				}
				return c.Mod(a, c.BigInt(pow2(k)))
			}
			if v.Sign() == 0 {
				return c.Int(0)
			}
		}
		if v, ok := litInt(a); ok {
			if k, ok := isPow2Minus1(v); ok {
				return c.Mod(b, c.BigInt(pow2(k)))
			}
		}
		if uns {
			// a run of ones in bits l..h-1: x & mask = x mod 2^h - x mod 2^l
			if v, ok := litInt(b); ok {
				if l, h, ok := contiguousMask(v); ok {
					return c.Sub(c.Mod(a, c.BigInt(pow2(h))), c.Mod(a, c.BigInt(pow2(l))))
				}
			}
			if v, ok := litInt(a); ok {
				if l, h, ok := contiguousMask(v); ok {
					return c.Sub(c.Mod(b, c.BigInt(pow2(h))), c.Mod(b, c.BigInt(pow2(l))))
				}
			}
		}
		t := e.uf2("bv.and", a, b)
		if !t.bound {
			c.AddFact(t, c.Implies(c.And(c.Ge(a, c.Int(0)), c.Ge(b, c.Int(0))), c.And(c.Le(c.Int(0), t), c.Le(t, a), c.Le(t, b))))
			c.AddFact(t, c.Eq(t, e.uf2("bv.and", b, a)))
			e.c.AddFact(t, e.inRange(t, rt))
		}
		return t
	case token.OR:
		if v, ok := litInt(b); ok && v.Sign() == 0 {
			return a
		}
		if v, ok := litInt(a); ok && v.Sign() == 0 {
			return b
		}
		if r := e.disjointOr(a, b); r != nil {
			return r
		}
		if uns {
			// x | 2^k  =  x + 2^k * (1 - bit_k(x))
			if k, ok := singleBit(b); ok {
				r := c.Add(a, c.Mul(c.BigInt(pow2(k)), c.Sub(c.Int(1), e.bitOf(a, k))))
				e.recordBits(r, a, k, c.Int(1))
				return r
			}
			if k, ok := singleBit(a); ok {
				r := c.Add(b, c.Mul(c.BigInt(pow2(k)), c.Sub(c.Int(1), e.bitOf(b, k))))
				e.recordBits(r, b, k, c.Int(1))
				return r
			}
		}
		t := e.uf2("bv.or", a, b)
		if !t.bound {
			c.AddFact(t, c.Implies(c.And(c.Ge(a, c.Int(0)), c.Ge(b, c.Int(0))), c.And(c.Ge(t, a), c.Ge(t, b), c.Le(t, c.Add(a, b)))))
			e.c.AddFact(t, e.inRange(t, rt))
		}
		return t
	case token.XOR:
		t := e.uf2("bv.xor", a, b)
		if !t.bound {
			c.AddFact(t, c.Eq(t, e.uf2("bv.xor", b, a)))
			e.c.AddFact(t, e.inRange(t, rt))
		}
		return t
	case token.AND_NOT:
		if uns {
			// x &^ 2^k  =  x - 2^k * bit_k(x)
			if k, ok := singleBit(b); ok {
				r := c.Sub(a, c.Mul(c.BigInt(pow2(k)), e.bitOf(a, k)))
				e.recordBits(r, a, k, c.Int(0))
				return r
			}
		}
		t := e.uf2("bv.andnot", a, b)
		if !t.bound {
			c.AddFact(t, c.Implies(c.And(c.Ge(a, c.Int(0)), c.Ge(b, c.Int(0))), c.And(c.Le(c.Int(0), t), c.Le(t, a))))
			e.c.AddFact(t, e.inRange(t, rt))
		}
		return t
	}
	e.fail("int binop %s", op)
	return nil
}

// bitRange returns [lo,hi) such that t is known to be a multiple of 2^lo and below 2^hi (non-negative).
func (e *Exec) bitRange(t *Term) (lo, hi int, ok bool) {
	t = strip(t)
	if t.kind == kApp && t.op == "*" {
		if v, isLit := litInt(t.args[1]); isLit && v.Sign() > 0 && v.BitLen() > 0 && pow2(uint(v.BitLen()-1)).Cmp(v) == 0 {
			l, h, ok := e.bitRange(t.args[0])
			if ok {
				return l + v.BitLen() - 1, h + v.BitLen() - 1, true
			}
		}
	}
	if t.kind == kApp && t.op == "mod" {
		if v, isLit := litInt(t.args[1]); isLit && v.Sign() > 0 && pow2(uint(v.BitLen()-1)).Cmp(v) == 0 {
			return 0, v.BitLen() - 1, true
		}
	}
	if t.kind == kApp && t.op == "+" && len(t.args) == 2 {
		l1, h1, ok1 := e.bitRange(t.args[0])
		l2, h2, ok2 := e.bitRange(t.args[1])
		if ok1 && ok2 && (h1 <= l2 || h2 <= l1) {
			return min(l1, l2), max(h1, h2), true
		}
	}
	if w, ok := e.knownWidth[t.id]; ok {
		return 0, w, true
	}
	return 0, 0, false
}

// disjointOr: a|b == a+b when their bit ranges do not overlap.
func (e *Exec) disjointOr(a, b *Term) *Term {
	l1, h1, ok1 := e.bitRange(a)
	l2, h2, ok2 := e.bitRange(b)
	if ok1 && ok2 && (h1 <= l2 || h2 <= l1) {
		return e.c.Add(a, b)
	}
	return nil
}

func (e *Exec) convert(st *State, ins ssa.Instruction, v Val, from, to types.Type) Val {
	c := e.c
	switch {
	case isInteger(from) && isInteger(to):
		r := v.T
		fb, tb := from.Underlying().(*types.Basic), to.Underlying().(*types.Basic)
		flo, fhi, _ := intRange(fb)
		tlo, thi, _ := intRange(tb)
		if flo.Cmp(tlo) < 0 || fhi.Cmp(thi) > 0 {
			r = e.wrap(r, to)
		}
		if isUnsigned(from) {
			if e.knownWidth == nil {
				e.knownWidth = map[int]int{}
			}
			w := int(intBits(from))
			if int(intBits(to)) < w {
				w = int(intBits(to))
			}
			e.knownWidth[strip(r).id] = w
			if ow, ok := e.knownWidth[strip(v.T).id]; ok && ow < w {
				e.knownWidth[strip(r).id] = ow
			}
		}
		return Val{T: r}
	case isInteger(from) && isFloat(to):
		ts := e.tm.Sort(to)
		if ts == "Real" {
			return Val{T: c.App("to_real", "Real", v.T)}
		}
		eb, sb := 11, 53
		if ts == sortFP32 {
			eb, sb = 8, 24
		}
		return Val{T: c.App(fmt.Sprintf("(_ to_fp %d %d)", eb, sb), ts, c.Lit("RNE", "RoundingMode"), c.App("to_real", "Real", v.T))}
	case isFloat(from) && isInteger(to):
		if v.T.sort == "Real" {
			// truncation toward zero
			fl := c.App("to_int", "Int", v.T)
			neg := c.App("-", "Int", c.App("to_int", "Int", c.App("-", "Real", v.T)))
			return Val{T: e.wrap(c.Ite(c.App(">=", "Bool", v.T, c.Lit("0.0", "Real")), fl, neg), to)}
		}
		r := c.App("fp.to_real", "Real", c.App("fp.roundToIntegral", v.T.sort, c.Lit("RTZ", "RoundingMode"), v.T))
		return Val{T: e.wrap(c.App("to_int", "Int", r), to)}
	case isFloat(from) && isFloat(to):
		fs, ts := e.tm.Sort(from), e.tm.Sort(to)
		if fs == ts {
			return v
		}
		eb, sb := 11, 53
		if ts == sortFP32 {
			eb, sb = 8, 24
		}
		return Val{T: c.App(fmt.Sprintf("(_ to_fp %d %d)", eb, sb), ts, c.Lit("RNE", "RoundingMode"), v.T)}
	case isString(to) && isSliceT(from):
		return Val{T: e.strOfSlice(st, v.T, from.Underlying().(*types.Slice).Elem())}
	case isSliceT(to) && isString(from):
		et := to.Underlying().(*types.Slice).Elem()
		base := e.newRef(st, "bytes")
		n, s := e.memArr(et)
		e.tm.declStr()
		c.DeclareFun("str.bytes", "(declare-fun str.bytes (Str) (Array Int Int))")
		arr := c.App("str.bytes", arrSort("Int", "Int"), v.T)
		if !arr.bound {
			j := c.BoundVar("j", "Int")
			c.AddFact(arr, c.ForallPat([]*Term{j}, c.Eq(c.Select(arr, j), c.App("str.at", "Int", v.T, j)), c.Select(arr, j)))
		}
		saved := e.frameOff
		e.frameOff = true
		e.heapSet(st, n, c.Store(e.heapGet(st, n, s), base, arr))
		e.frameOff = saved
		ln := e.strLen(v.T)
		return Val{T: e.tm.MkSlice(base, c.Int(0), ln, ln)}
	case isString(to) && isInteger(from):
		e.tm.declStr()
		c.DeclareFun("str.ofrune", "(declare-fun str.ofrune (Int) Str)")
		return Val{T: c.App("str.ofrune", "Str", v.T)}
	case isString(to) && isString(from):
		return v
	}
	// pointer <-> unsafe.Pointer, etc.
	if v.T != nil && e.tm.Sort(from) == e.tm.Sort(to) {
		return v
	}
	if v.T == nil {
		return v
	}
	e.fail("convert %s -> %s", from, to)
	return Val{}
}

// strOfSlice: string(b) as a function of the bytes.
func (e *Exec) strOfSlice(st *State, s *Term, et types.Type) *Term {
	c := e.c
	e.tm.declStr()
	c.DeclareFun("str.of", "(declare-fun str.of ((Array Int Int) Int Int) Str)")
	n, srt := e.memArr(et)
	arr := c.Select(e.heapGet(st, n, srt), e.tm.SliceBase(s))
	off, ln := e.tm.SliceOff(s), e.tm.SliceLen(s)
	t := c.App("str.of", "Str", arr, off, ln)
	if !t.bound {
		c.AddFact(t, c.Eq(c.App("str.len", "Int", t), ln))
		j := c.BoundVar("j", "Int")
		c.AddFact(t, c.ForallPat([]*Term{j}, c.Implies(c.And(c.Le(c.Int(0), j), c.Lt(j, ln)),
			c.Eq(c.App("str.at", "Int", t, j), c.Select(arr, c.Add(off, j)))), c.App("str.at", "Int", t, j)))
	}
	return t
}

func (e *Exec) fpLit(f float64, sort string) *Term {
	c := e.c
	if sort == "Real" {
		r := new(big.Rat)
		if math.IsInf(f, 0) || math.IsNaN(f) {
			e.fail("non-finite float constant in real mode")
		}
		r.SetFloat64(f)
		neg := r.Sign() < 0
		if neg {
			r.Neg(r)
		}
		s := fmt.Sprintf("(/ %s.0 %s.0)", r.Num().String(), r.Denom().String())
		if neg {
			s = "(- " + s + ")"
		}
		return c.Lit(s, "Real")
	}
	if sort == sortFP32 {
		bits := math.Float32bits(float32(f))
		return c.Lit(fmt.Sprintf("(fp #b%01b #b%08b #b%023b)", bits>>31, (bits>>23)&0xff, bits&0x7fffff), sort)
	}
	bits := math.Float64bits(f)
	return c.Lit(fmt.Sprintf("(fp #b%01b #b%011b #b%052b)", bits>>63, (bits>>52)&0x7ff, bits&((1<<52)-1)), sort)
}

func (e *Exec) constVal(x *ssa.Const) Val {
	c := e.c
	ty := x.Type()
	if x.Value == nil {
		// zero value / nil
		if _, ok := ty.Underlying().(*types.Signature); ok {
			return Val{T: c.Int(0)}
		}
		return Val{T: e.tm.Zero(ty)}
	}
	switch {
	case isBool(ty):
		return Val{T: c.Bool(constant.BoolVal(x.Value))}
	case isInteger(ty):
		v, ok := constant.Val(constant.ToInt(x.Value)).(*big.Int)
		if !ok {
			i, _ := constant.Int64Val(constant.ToInt(x.Value))
			v = big.NewInt(i)
		}
		return Val{T: c.BigInt(v)}
	case isFloat(ty):
		f, _ := constant.Float64Val(x.Value)
		srt := e.tm.Sort(ty)
		if srt == sortFP32 {
			f32, _ := constant.Float32Val(x.Value)
			f = float64(f32)
		}
		if srt == "Real" {
			// exact rational when possible
			if r, ok := constant.Val(x.Value).(*big.Rat); ok {
				neg := r.Sign() < 0
				rr := new(big.Rat).Abs(r)
				s := fmt.Sprintf("(/ %s.0 %s.0)", rr.Num().String(), rr.Denom().String())
				if neg {
					s = "(- " + s + ")"
				}
				return Val{T: c.Lit(s, "Real")}
			}
		}
		return Val{T: e.fpLit(f, srt)}
	case isString(ty):
		return Val{T: e.tm.StrLit(constant.StringVal(x.Value))}
	}
	e.fail("constant of type %s", ty)
	return Val{}
}


// contiguousMask: v = 2^h - 2^l with 0 < l < h <= 64 (a single run of one bits not starting at bit 0).
func contiguousMask(v *big.Int) (l, h uint, ok bool) {
	if v.Sign() <= 0 || v.BitLen() > 64 {
		return 0, 0, false
	}
	l = v.TrailingZeroBits()
	h = uint(v.BitLen())
	if l == 0 {
		return 0, 0, false
	}
	want := new(big.Int).Sub(pow2(h), pow2(l))
	return l, h, want.Cmp(v) == 0
}
