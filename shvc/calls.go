package main

import (
	"fmt"
	"go/token"
	"go/types"
	"sort"
	"strings"

	"golang.org/x/tools/go/ssa"
)

func (e *Exec) call(fr *Frame, st *State, ins ssa.Instruction, cc *ssa.CallCommon) Val {
	args := make([]Val, len(cc.Args))
	for i, a := range cc.Args {
		args[i] = e.operand(fr, a)
	}
	resT := cc.Signature().Results()
	var rtyp types.Type = resT
	if resT.Len() == 1 {
		rtyp = resT.At(0).Type()
	}
	if b, ok := cc.Value.(*ssa.Builtin); ok {
		return e.builtin(fr, st, ins, b, cc, args)
	}
	if cc.IsInvoke() {
		if v, ok := e.streamMethod(fr, st, ins, cc, args, rtyp); ok {
			return v
		}
		v := e.unknownCall(fr, st, ins, "interface method "+cc.Method.Name(), rtyp, args)
		// io.Reader / io.Writer: 0 <= n <= len(p) is part of the documented interface contract
		if n := cc.Method.Name(); (n == "Read" || n == "Write") && len(args) == 1 && len(v.Tup) == 2 && args[0].T != nil {
			if sl, ok := cc.Args[0].Type().Underlying().(*types.Slice); ok && isByteT(sl.Elem()) && v.Tup[0].T != nil && v.Tup[0].T.sort == "Int" {
				e.assume(st, e.c.And(e.c.Le(e.c.Int(0), v.Tup[0].T), e.c.Le(v.Tup[0].T, e.tm.SliceLen(args[0].T))))
				e.assumed["interface methods Read/Write([]byte) (int, error) return 0 <= n <= len(p) (io.Reader / io.Writer contract)"] = true
			}
		}
		return v
	}
	var callee *ssa.Function
	var bindings []Val
	if f := cc.StaticCallee(); f != nil {
		callee = f
		if mc, ok := cc.Value.(*ssa.MakeClosure); ok {
			bindings = e.operand(fr, mc).Clo.bindings
		}
	} else {
		fv := e.operand(fr, cc.Value)
		if fv.Clo != nil {
			callee = fv.Clo.fn
			bindings = fv.Clo.bindings
		}
	}
	if callee == nil {
		if isContextCancel(cc.Value, 0) {
			e.assumed["cancel functions returned by context.With* change no modelled state"] = true
			return Val{}
		}
		return e.unknownCall(fr, st, ins, "dynamic call", rtyp, args)
	}
	name := callee.String()
	if callee.Pkg == nil && callee.Origin() != nil {
		name = callee.Origin().String()
	}
	if strings.HasPrefix(callee.Name(), "_Cfunc_") || strings.HasPrefix(callee.Name(), "_Cmacro_") {
		// cgo stub: the C side writes the results through a pointer to the argument frame, which the SSA body does
		// not show - the call is opaque
		return e.unknownCall(fr, st, ins, "cgo call "+callee.Name(), rtyp, args)
	}
	switch name {
	case "sort.Slice", "sort.SliceStable", "slices.SortFunc", "slices.SortStableFunc":
		if e.pure == 0 {
			if e.sortModel(fr, st, ins, name, cc, args) {
				return Val{}
			}
		}
	}
	// spec intrinsics
	if v, ok := e.intrinsic(fr, st, ins, callee, name, cc, args); ok {
		return v
	}
	if v, ok := e.modelled(st, ins, name, args, rtyp); ok {
		return v
	}
	if sp := e.eng.specFor(callee); sp != nil && !sp.Inline && (e.pure == 0 || sp.Assume || sp.Ghost) {
		if sp.Ghost {
			return e.ghostCall(st, sp, callee, args, rtyp)
		}
		if sp.Uninterp {
			e.assumed["assumed: result of "+sp.Name+" is a function of its arguments only (uninterpreted)"] = true
			return e.ufCall(st, callee, args, rtyp)
		}
		return e.callByContract(fr, st, ins, sp, callee, args, rtyp)
	}
	if name == "(*sync.Cond).Wait" && e.pure == 0 {
		// the lock is released while waiting: any other goroutine may have run
		if e.frameOn && fr.spec != nil && fr.spec.HasModifies && len(fr.spec.ModPkgs) == 0 {
			// interference is confined to the function's own frame: an assumption about the other lock holders
			e.assumed["(*sync.Cond).Wait: while the lock is released other goroutines change only locations in this function's modifies clause (havocked)"] = true
			for _, l := range e.frameLocs {
				srt := e.heapSorts[l.arr]
				cur := e.heapGet(st, l.arr, srt)
				_, es := arrayParts(cur.sort)
				e.heapSet(st, l.arr, e.c.Store(cur, l.ref, e.c.Fresh(l.arr+"@wait", es)))
			}
			return Val{}
		}
		e.note("(*sync.Cond).Wait: heap havocked (other goroutines run while the lock is released)")
		e.havocAll(st)
		return Val{}
	}
	if e.eng.isPureExternal(name) || e.eng.isNoop(name) {
		if e.pure > 0 {
			return e.ufCall(st, callee, args, rtyp)
		}
		if e.eng.isDeterministicExternal(name) {
			if _, isTuple := rtyp.(*types.Tuple); !isTuple {
				allTerms := true
				for _, a := range args {
					if a.T == nil {
						allTerms = false
					}
				}
				if allTerms {
					e.assumed["external function treated as a deterministic function of its arguments: "+name] = true
					return e.ufCall(st, callee, args, rtyp)
				}
			}
		}
		return e.unknownCall(fr, st, ins, name, rtyp, args)
	}
	if e.eng.recursiveSpec(callee) {
		// a recursive specification function is an uninterpreted function with its definition unfolded once at
		// every ground call (inner calls stay folded)
		v := e.ufCall(st, callee, args, rtyp)
		ground := true
		for _, a := range args {
			if a.T == nil || a.T.bound {
				ground = false
			}
		}
		if e.unfolding == nil {
			e.unfolding, e.unfolded = map[*ssa.Function]int{}, map[int]bool{}
		}
		if ground && e.unfolding[callee] == 0 && !e.unfolded[v.T.id] {
			e.unfolded[v.T.id] = true
			e.unfolding[callee]++
			e.pure++
			cs := st.clone()
			cs.reach = e.c.True()
			body := e.inline(fr, cs, callee, args, nil)
			e.pure--
			e.unfolding[callee]--
			e.c.AddFact(v.T, e.c.Eq(v.T, body.T))
			e.assumed["recursive specification function (unfolded once per call, assumed well-founded): "+shortFn(callee)] = true
		}
		return v
	}
	if e.eng.inlinable(callee, e.pure > 0) {
		if v, ok := e.tryInline(fr, st, callee, args, bindings); ok {
			return v
		}
		// the body uses something outside the subset: abstract the call instead
	}
	if e.pure > 0 {
		// in specifications an unknown pure function is an uninterpreted function of its arguments
		return e.ufCall(st, callee, args, rtyp)
	}
	if len(callee.Blocks) > 0 {
		// body available but not inlined (loops / size): havoc only what it may write
		if mw := e.eng.mayWrite(callee); !mw.all {
			staticArg := false
			for _, a := range args {
				if a.T == nil {
					staticArg = true
				}
			}
			if !staticArg {
				e.note("callee without contract abstracted by its write set: " + name)
				for n, srt := range mw.heap {
					if e.frameOn && !e.frameOff {
						e.wholeArrayFrame(st, n)
					}
					e.heapSet(st, n, e.c.Fresh(n+"@call", e.fixSort(srt)))
				}
				e.bumpAlloc(st)
				if t, ok := rtyp.(*types.Tuple); ok && t.Len() == 0 {
					return Val{}
				}
				return e.havocVal(st, rtyp, "ret")
			}
		}
	}
	return e.unknownCall(fr, st, ins, name, rtyp, args)
}

func (e *Exec) ufCall(st *State, callee *ssa.Function, args []Val, rtyp types.Type) Val {
	c := e.c
	name := "uf." + sanitize(shortFn(callee))
	var sorts []string
	var ts []*Term
	for _, a := range args {
		if a.T == nil {
			e.fail("uninterpreted call %s with non-term argument", callee)
		}
		sorts = append(sorts, a.T.sort)
		ts = append(ts, a.T)
	}
	rs := e.tm.Sort(rtyp)
	if rs == "Tuple" {
		e.fail("uninterpreted call %s returning a tuple", callee)
	}
	if callee.Origin() != nil || callee.TypeParams().Len() > 0 {
		// instances of a generic function are different functions
		name += "." + sanitize(strings.Join(sorts, "."))
	}
	c.DeclareFun(name, fmt.Sprintf("(declare-fun %s (%s) %s)", name, strings.Join(sorts, " "), rs))
	t := c.App(name, rs, ts...)
	return Val{T: e.typed(t, rtyp)}
}

func (e *Exec) ghostCall(st *State, sp *FuncSpec, callee *ssa.Function, args []Val, rtyp types.Type) Val {
	return e.ufCall(st, callee, args, rtyp)
}

func (e *Exec) inline(fr *Frame, st *State, callee *ssa.Function, args []Val, bindings []Val) Val {
	nf := e.newFrame(callee)
	nf.bindings = bindings
	savedPrefix := e.oblPrefix
	if e.pure == 0 {
		e.oblPrefix = savedPrefix + shortFn(callee) + "/"
	}
	out, res := e.run(nf, args, st)
	e.oblPrefix = savedPrefix
	*st = *out
	return packResults(res)
}

// tryInline inlines the callee; if its body turns out to be outside the subset, every effect of the
// attempt is rolled back and false is returned (the caller then abstracts the call).
func (e *Exec) tryInline(fr *Frame, st *State, callee *ssa.Function, args []Val, bindings []Val) (v Val, ok bool) {
	if e.eng.inlineFails[callee] {
		return Val{}, false
	}
	saved := st.clone()
	nObl := len(e.obls)
	names := make(map[string]int, len(e.oblNames))
	for k, n := range e.oblNames {
		names[k] = n
	}
	prefix, depth, pure, noPrune := e.oblPrefix, e.depth, e.pure, e.noPrune
	defer func() {
		if r := recover(); r != nil {
			u, isU := r.(unsupported)
			if !isU {
				panic(r)
			}
			*st = *saved
			e.obls = e.obls[:nObl]
			e.oblNames = names
			e.oblPrefix, e.depth, e.pure, e.noPrune = prefix, depth, pure, noPrune
			e.eng.inlineFails[callee] = true
			e.note("callee not inlined (" + u.msg + "): " + callee.String())
			v, ok = Val{}, false
		}
	}()
	return e.inline(fr, st, callee, args, bindings), true
}

func packResults(res []Val) Val {
	switch len(res) {
	case 0:
		return Val{}
	case 1:
		return res[0]
	}
	return Val{Tup: res}
}

// unknownCall: results havocked, whole heap havocked.
func (e *Exec) unknownCall(fr *Frame, st *State, ins ssa.Instruction, what string, rtyp types.Type, args []Val) Val {
	if e.eng.isPureExternal(what) {
		e.assumed["external function assumed to have no effect on the modelled heap: "+what] = true
	} else if e.eng.isNoop(what) {
		e.assumed["synchronisation call treated as no-op (sequential/monitor reading): "+what] = true
		if t, ok := rtyp.(*types.Tuple); ok && t.Len() == 0 {
			return Val{}
		}
		if rtyp == nil {
			return Val{}
		}
		return e.havocVal(st, rtyp, "ret") // TryLock: either outcome
	} else {
		e.note("unknown callee (results and heap havocked): " + what)
		e.havocAll(st)
		// captured/shared cells may be written by callbacks
		for _, a := range args {
			if a.Clo != nil {
				for _, b := range a.Clo.bindings {
					if b.P != nil && b.P.kind == pCell {
						var facts []*Term
						st.cells[b.P.cell] = e.tm.FreshTyped(b.P.cell.name+"@cb", b.P.cell.typ, &facts)
						e.assume(st, e.c.And(facts...))
					}
				}
			}
			if a.P != nil && a.P.kind == pCell {
				var facts []*Term
				st.cells[a.P.cell] = e.tm.FreshTyped(a.P.cell.name+"@esc", a.P.cell.typ, &facts)
				e.assume(st, e.c.And(facts...))
			}
		}
	}
	if t, ok := rtyp.(*types.Tuple); ok && t.Len() == 0 {
		return Val{}
	}
	v := e.havocVal(st, rtyp, "ret")
	if e.eng.returnsNonNil(what) && v.T != nil {
		e.assume(st, e.c.Not(e.c.Eq(v.T, e.c.Int(0))))
	}
	return v
}

// ---------- builtins ----------

func (e *Exec) builtin(fr *Frame, st *State, ins ssa.Instruction, b *ssa.Builtin, cc *ssa.CallCommon, args []Val) Val {
	c := e.c
	switch b.Name() {
	case "len":
		switch u := cc.Args[0].Type().Underlying().(type) {
		case *types.Slice:
			return Val{T: e.tm.SliceLen(args[0].T)}
		case *types.Basic:
			return Val{T: e.strLen(args[0].T)}
		case *types.Map:
			return Val{T: e.mapLen(st, u, args[0].T)}
		case *types.Array:
			return Val{T: c.Int(u.Len())}
		case *types.Pointer:
			return Val{T: c.Int(u.Elem().Underlying().(*types.Array).Len())}
		case *types.Chan:
			return e.havocVal(st, types.Typ[types.Int], "chanlen")
		}
	case "cap":
		switch u := cc.Args[0].Type().Underlying().(type) {
		case *types.Slice:
			return Val{T: e.tm.SliceCap(args[0].T)}
		case *types.Array:
			return Val{T: c.Int(u.Len())}
		case *types.Chan:
			return e.havocVal(st, types.Typ[types.Int], "chancap")
		}
	case "append":
		return Val{T: e.appendBuiltin(fr, st, ins, cc, args)}
	case "copy":
		return Val{T: e.copyBuiltin(st, cc, args)}
	case "delete":
		mt := cc.Args[0].Type().Underlying().(*types.Map)
		e.mapDelete(st, mt, args[0].T, args[1].T)
		return Val{}
	case "min", "max":
		r := args[0].T
		for _, a := range args[1:] {
			var less *Term
			if isFloat(cc.Args[0].Type()) {
				less = e.fpCmp(token.LSS, a.T, r)
			} else {
				less = c.Lt(a.T, r)
			}
			if b.Name() == "min" {
				r = c.Ite(less, a.T, r)
			} else {
				r = c.Ite(less, r, a.T)
			}
		}
		return Val{T: r}
	case "print", "println":
		return Val{}
	case "ssa:wrapnilchk":
		return args[0]
	case "ssa:deferstack":
		return Val{T: c.Int(0)}
	case "clear":
		switch u := cc.Args[0].Type().Underlying().(type) {
		case *types.Map:
			dn, _, ln, ks, _ := e.mapArrs(u)
			ds := arrSort("Int", arrSort(ks, "Bool"))
			domA := e.heapGet(st, dn, ds)
			lenA := e.heapGet(st, ln, arrSort("Int", "Int"))
			e.frameCheck(st, dn, args[0].T)
			e.heapSet(st, ln, c.Store(lenA, args[0].T, c.Int(0)))
			e.heapSet(st, dn, c.Store(domA, args[0].T, c.App("(as const "+arrSort(ks, "Bool")+")", arrSort(ks, "Bool"), c.False())))
			return Val{}
		case *types.Slice:
			if !isStructT(u.Elem()) && !isArrayT(u.Elem()) {
				n, srt := e.memArr(u.Elem())
				base := e.tm.SliceBase(args[0].T)
				e.frameCheck(st, n, base)
				mem := e.heapGet(st, n, srt)
				_, es := arrayParts(mem.sort)
				e.note("clear(slice): elements havocked instead of zeroed")
				e.heapSet(st, n, c.Store(mem, base, c.Fresh(n+"@clear", es)))
				return Val{}
			}
		}
		e.fail("clear builtin on %s", cc.Args[0].Type())
	case "close":
		return Val{}
	case "recover":
		return Val{T: c.Int(0)}
	}
	e.fail("builtin %s", b.Name())
	return Val{}
}

// copyRange returns a fresh array equal to dst except dst[doff+i] = src[soff+i] for 0<=i<n.
func (e *Exec) copyRange(st *State, dst *Term, doff *Term, src *Term, soff *Term, n *Term, srcIsStr bool) *Term {
	c := e.c
	srcAt := func(i *Term) *Term {
		if srcIsStr {
			return c.App("str.at", "Int", src, i)
		}
		return c.Select(src, i)
	}
	if v, ok := litInt(n); ok && v.IsInt64() && v.Int64() <= 16 {
		r := dst
		for i := int64(0); i < v.Int64(); i++ {
			r = c.Store(r, c.Add(doff, c.Int(i)), srcAt(c.Add(soff, c.Int(i))))
		}
		return r
	}
	r := c.Fresh("copied", dst.sort)
	j := c.BoundVar("j", "Int")
	in := c.And(c.Le(doff, j), c.Lt(j, c.Add(doff, n)))
	e.assume(st, c.Forall([]*Term{j}, c.Eq(c.Select(r, j), c.Ite(in, srcAt(c.Add(soff, c.Sub(j, doff))), c.Select(dst, j)))))
	return r
}

func (e *Exec) appendBuiltin(fr *Frame, st *State, ins ssa.Instruction, cc *ssa.CallCommon, args []Val) *Term {
	c := e.c
	st0 := cc.Args[0].Type().Underlying().(*types.Slice)
	et := st0.Elem()
	s := args[0].T
	if isStructT(et) || isArrayT(et) {
		if isStructT(et) && !isString(cc.Args[1].Type()) {
			if n1, ok := litInt(e.tm.SliceLen(args[1].T)); ok && n1.IsInt64() && n1.Int64() == 1 {
				return e.appendStruct(fr, st, ins, cc, args, et)
			}
		}
		if isStructT(et) {
			// elements of struct slices live in the per-field arrays of the element type: an append writes only those
			e.note("append to slice of structs abstracted (element type's field arrays havocked, result length exact)")
			ms := newModSet()
			e.eng.addTypeWrites(ms, e, et)
			for n, srt := range ms.heap {
				if e.frameOn && !e.frameOff {
					e.wholeArrayFrame(st, n)
				}
				e.heapSet(st, n, e.c.Fresh(n+"@append", e.fixSort(srt)))
			}
			e.bumpAlloc(st)
			r := e.havocVal(st, cc.Args[0].Type(), "append").T
			if !isString(cc.Args[1].Type()) {
				e.assume(st, e.c.Eq(e.tm.SliceLen(r), e.c.Add(e.tm.SliceLen(s), e.tm.SliceLen(args[1].T))))
			}
			return r
		}
		e.note("append to slice of arrays abstracted")
		e.havocAll(st)
		r := e.havocVal(st, cc.Args[0].Type(), "append").T
		if !isString(cc.Args[1].Type()) {
			e.assume(st, e.c.Eq(e.tm.SliceLen(r), e.c.Add(e.tm.SliceLen(s), e.tm.SliceLen(args[1].T))))
		}
		return r
	}
	mn, ms := e.memArr(et)
	mem := e.heapGet(st, mn, ms)
	base, off, ln, cp := e.tm.SliceBase(s), e.tm.SliceOff(s), e.tm.SliceLen(s), e.tm.SliceCap(s)
	var n, src, soff *Term
	srcIsStr := false
	if isString(cc.Args[1].Type()) {
		srcIsStr = true
		src = args[1].T
		soff = c.Int(0)
		n = e.strLen(src)
	} else {
		t := args[1].T
		n = e.tm.SliceLen(t)
		soff = e.tm.SliceOff(t)
		src = c.Select(mem, e.tm.SliceBase(t))
	}
	if v, ok := litInt(n); ok && v.Sign() == 0 {
		return s
	}
	fits := c.Le(c.Add(ln, n), cp)
	nb := c.Fresh("append.base", "Int")
	e.assume(st, c.And(c.Gt(nb, st.allocTop), c.Gt(nb, c.Int(0))))
	st.allocTop = nb
	ncap := c.Fresh("append.cap", "Int")
	e.assume(st, c.And(c.Ge(ncap, c.Add(ln, n)), c.Le(ncap, c.Int(1<<40))))
	newBase := c.Ite(fits, base, nb)
	arr := e.copyRange(st, c.Select(mem, base), c.Add(off, ln), src, soff, n, srcIsStr)
	if fr.spec != nil && e.frameOn && !e.frameOff {
		// in-place append writes through base
		e.frameCheckCond(st, mn, base, fits)
	}
	saved := e.frameOff
	e.frameOff = true
	e.heapSet(st, mn, c.Store(mem, newBase, arr))
	e.frameOff = saved
	e.allocCheck(fr, st, ins, c.Ite(fits, c.Int(0), ncap))
	return e.tm.MkSlice(newBase, off, c.Add(ln, n), c.Ite(fits, cp, ncap))
}

func (e *Exec) copyBuiltin(st *State, cc *ssa.CallCommon, args []Val) *Term {
	c := e.c
	et := cc.Args[0].Type().Underlying().(*types.Slice).Elem()
	if isStructT(et) || isArrayT(et) {
		e.note("copy of aggregates abstracted")
		e.havocAll(st)
		return e.havocVal(st, types.Typ[types.Int], "copy").T
	}
	mn, ms := e.memArr(et)
	mem := e.heapGet(st, mn, ms)
	d := args[0].T
	var n, src, soff *Term
	srcIsStr := false
	if isString(cc.Args[1].Type()) {
		srcIsStr = true
		src, soff = args[1].T, c.Int(0)
		n = e.strLen(src)
	} else {
		t := args[1].T
		src, soff, n = c.Select(mem, e.tm.SliceBase(t)), e.tm.SliceOff(t), e.tm.SliceLen(t)
	}
	dl := e.tm.SliceLen(d)
	cnt := c.Ite(c.Lt(n, dl), n, dl)
	base := e.tm.SliceBase(d)
	arr := e.copyRange(st, c.Select(mem, base), e.tm.SliceOff(d), src, soff, cnt, srcIsStr)
	e.frameCheck(st, mn, base)
	e.heapSet(st, mn, c.Store(mem, base, arr))
	return cnt
}

// ---------- frames ----------

func (e *Exec) frameCheck(st *State, arr string, ref *Term) {
	e.frameCheckCond(st, arr, ref, e.c.True())
}

func (e *Exec) frameCheckCond(st *State, arr string, ref *Term, cond *Term) {
	if !e.frameOn || e.frameOff || e.pure > 0 {
		return
	}
	c := e.c
	ok := []*Term{c.Gt(ref, e.entryTop)}
	// sub-objects of fresh objects are fresh too
	for s := strip(ref); s.kind == kApp && (s.op == "sub" || s.op == "elem"); s = strip(s.args[0]) {
		ok = append(ok, c.Gt(s.args[0], e.entryTop))
	}
	for _, l := range e.frameLocs {
		if l.arr == arr {
			ok = append(ok, c.Eq(ref, l.ref))
		}
	}
	e.oblige(st, "frame", "frame:"+arr, c.Implies(cond, c.Or(ok...)), token.NoPos)
}

// ---------- contracts ----------

// evalWrapper evaluates a spec wrapper function on arguments in state st with old-state oldSt.
func (e *Exec) evalPure(fn *ssa.Function, args, oldArgs []Val, bindings []Val, st, oldSt *State) Val {
	e.pure++
	defer func() { e.pure-- }()
	fr := e.newFrame(fn)
	fr.bindings = bindings
	if oldSt != nil && e.eng.usesOld(fn) {
		os := oldSt.clone()
		os.reach = e.c.True()
		ofr := e.newFrame(fn)
		ofr.bindings = bindings
		e.noPrune++
		end, _ := e.run(ofr, oldArgs, os)
		e.noPrune--
		fr.oldVals = ofr.vals
		fr.oldEnd = end
		fr.allocs = ofr.allocs
	}
	cs := st.clone()
	cs.reach = e.c.True()
	_, res := e.run(fr, args, cs)
	return packResults(res)
}

// Clause evaluation for the function in frame fr (requires/ensures/invariants/asserts).
// results is nil except for ensures.
func (e *Exec) evalClauseAt(fr *Frame, cl Clause, st *State, results []Val) *Term {
	if cl.Wrapper == nil {
		e.fail("clause %s has no wrapper", cl.Label)
	}
	var args, oldArgs []Val
	for i, p := range cl.Params {
		_ = i
		switch p.Kind {
		case pkParam:
			entry := fr.params[p.Index]
			cur := entry
			if cl.CurrentParams {
				if a := e.eng.paramAlloc(fr.fn, p.Index); a != nil {
					if av, ok := fr.allocs[a]; ok {
						cur = e.load(st, av, deref(a.Type()))
					}
				}
			}
			args = append(args, cur)
			oldArgs = append(oldArgs, entry)
		case pkResult:
			if p.Index >= len(results) {
				e.fail("clause %s refers to result %d", cl.Label, p.Index)
			}
			args = append(args, results[p.Index])
			oldArgs = append(oldArgs, results[p.Index])
		case pkCallArg:
			vs, ok := fr.callArgs[fmt.Sprintf("%s:%d", p.File, p.Off)]
			if !ok || p.Index >= len(vs) {
				e.fail("clause %s: %s - that call was not executed before the clause", cl.Label, p.Name)
			}
			av := e.onThisPath(fr, fmt.Sprintf("%s:%d", p.File, p.Off), vs[p.Index])
			args = append(args, av)
			oldArgs = append(oldArgs, av)
		case pkCallRes:
			v, ok := fr.callRes[fmt.Sprintf("%s:%d", p.File, p.Off)]
			if !ok {
				e.fail("clause %s: %s - that call was not executed before the clause", cl.Label, p.Name)
			}
			if p.Index > 0 { // result_of(k, f, j): component j of a tuple result
				if p.Index-1 >= len(v.Tup) {
					e.fail("clause %s: %s - no such result", cl.Label, p.Name)
				}
				v = v.Tup[p.Index-1]
			}
			v = e.onThisPath(fr, fmt.Sprintf("%s:%d", p.File, p.Off), v)
			args = append(args, v)
			oldArgs = append(oldArgs, v)
		case pkRangeIdx:
			var v Val
			found := false
			for _, li := range fr.loops {
				if li.ordinal != cl.LoopOrd {
					continue
				}
				for _, ins := range li.head.Instrs {
					if phi, ok := ins.(*ssa.Phi); ok && phi.Comment == "rangeindex" {
						v, found = fr.vals[phi], true
					}
					// NaiveForm: the hidden index is a local cell named "rangeindex", loaded first thing in the head
					if ld, ok := ins.(*ssa.UnOp); ok && ld.Op == token.MUL && !found {
						if a, ok := ld.X.(*ssa.Alloc); ok && a.Comment == "rangeindex" {
							if av, ok := fr.allocs[a]; ok {
								v, found = e.load(st, av, deref(a.Type())), true
							}
						}
					}
				}
			}
			if !found {
				e.fail("clause %s: rangeidx used but loop %d is not a range-over-slice loop", cl.Label, cl.LoopOrd)
			}
			args = append(args, v)
			oldArgs = append(oldArgs, v)
		case pkLocal:
			a := e.eng.localAlloc(fr.fn, p)
			if a == nil {
				// a variable of the enclosing function captured by this function literal
				if fv := e.eng.localFreeVar(fr.fn, p); fv != nil {
					if bv, ok := fr.vals[fv]; ok {
						v := e.load(st, bv, deref(fv.Type()))
						if p.Snap {
							if fr.oldOverride == nil {
								e.fail("clause %s: before(%s) needs a 'since' anchor", cl.Label, strings.TrimPrefix(p.Name, "before_"))
							}
							v = e.load(fr.oldOverride, bv, deref(fv.Type()))
						}
						args = append(args, v)
						ov := v
						if fr.oldOverride != nil && (isStructT(deref(fv.Type())) || isArrayT(deref(fv.Type()))) {
							ov = e.load(fr.oldOverride, bv, deref(fv.Type()))
						}
						oldArgs = append(oldArgs, ov)
						continue
					}
				}
				e.fail("clause %s: local %s not found", cl.Label, p.Name)
			}
			av, ok := fr.allocs[a]
			if !ok {
				// not yet allocated on this path: zero value
				z := Val{T: e.tm.Zero(deref(a.Type()))}
				args = append(args, z)
				oldArgs = append(oldArgs, z)
				continue
			}
			v := e.load(st, av, deref(a.Type()))
			if p.Snap {
				if fr.oldOverride == nil {
					e.fail("clause %s: before(%s) needs a 'since' anchor", cl.Label, strings.TrimPrefix(p.Name, "before_"))
				}
				v = e.load(fr.oldOverride, av, deref(a.Type()))
			}
			args = append(args, v)
			ov := v
			if fr.oldOverride != nil && (isStructT(deref(a.Type())) || isArrayT(deref(a.Type()))) {
				// aggregate locals are memory: old() reads them from the snapshot
				ov = e.load(fr.oldOverride, av, deref(a.Type()))
			}
			oldArgs = append(oldArgs, ov)
		}
	}
	// candidate witnesses for existentials: current values of the function's integer locals
	savedW := e.witness
	e.witness = e.witnessFor(fr, st)
	oldSt := fr.entry
	if fr.oldOverride != nil {
		oldSt = fr.oldOverride
		// scalar locals and parameters keep their current values; the heap and aggregate locals are the old ones
		for i, p := range cl.Params {
			if p.Kind != pkLocal {
				oldArgs[i] = args[i]
			}
		}
	}
	v := e.evalPure(cl.Wrapper, args, oldArgs, nil, st, oldSt)
	e.witness = savedW
	if v.T == nil {
		e.fail("clause %s did not evaluate to a term", cl.Label)
	}
	return v.T
}

// evalClauseCall evaluates a callee's clause at a call site.
// witnessFor: instantiation candidates for quantifiers = current values of the frame's integer locals
// (deterministic: sorted by term id, at most 8).
func (e *Exec) witnessFor(fr *Frame, st *State) []*Term {
	var ws []*Term
	seen := map[int]bool{}
	for a, av := range fr.allocs {
		if av.P == nil || av.P.kind != pCell || !isInteger(deref(a.Type())) {
			continue
		}
		if t, ok := st.cells[av.P.cell]; ok && !t.bound && !seen[t.id] && t.kind != kLit {
			seen[t.id] = true
			ws = append(ws, t)
			if a.Comment == "rangeindex" {
				// the hidden index of a range loop is advanced at the top of the body
				if n := e.c.Add(t, e.c.Int(1)); !seen[n.id] {
					seen[n.id] = true
					ws = append(ws, n)
				}
			}
		}
	}
	sort.Slice(ws, func(i, j int) bool { return ws[i].id < ws[j].id })
	if len(ws) > 8 {
		ws = ws[len(ws)-8:]
	}
	return ws
}

func (e *Exec) evalClauseCall(cl Clause, args []Val, results []Val, st, oldSt *State) *Term {
	var as []Val
	for _, p := range cl.Params {
		switch p.Kind {
		case pkParam:
			as = append(as, args[p.Index])
		case pkResult:
			as = append(as, results[p.Index])
		default:
			e.fail("callee clause %s refers to a local", cl.Label)
		}
	}
	v := e.evalPure(cl.Wrapper, as, as, nil, st, oldSt)
	return v.T
}

func (e *Exec) modLocs(sp *FuncSpec, args []Val, st *State) []Loc {
	if sp.ModWrapper == nil {
		return nil
	}
	saved := e.collectLocs
	e.collectLocs = &[]Loc{}
	var as []Val
	for _, p := range sp.ModParams {
		as = append(as, args[p.Index])
	}
	e.evalPure(sp.ModWrapper, as, as, nil, st, nil)
	locs := *e.collectLocs
	e.collectLocs = saved
	return locs
}

func (e *Exec) callByContract(fr *Frame, st *State, ins ssa.Instruction, sp *FuncSpec, callee *ssa.Function, args []Val, rtyp types.Type) Val {
	c := e.c
	k := e.eng.callOrdinal(fr.fn, ins)
	short := shortFn(callee)
	// a pointer to a local, a field or an element (not a heap object of its own) is passed by copy-in / copy-out
	// through a fresh object: sound as long as the callee has no other access path to that location
	type copyBack struct {
		p  Val
		r  *Term
		ty types.Type
	}
	var backs []copyBack
	for i, a := range args {
		if a.T == nil && a.Clo == nil {
			var pt *types.Pointer
			if i < len(callee.Params) {
				pt, _ = callee.Params[i].Type().Underlying().(*types.Pointer)
			}
			if a.P == nil || pt == nil {
				e.fail("call of contracted %s with a static pointer argument (local whose address is taken must be heap-allocated)", callee)
			}
			saved := e.frameOff
			e.frameOff = true
			r := e.newRef(st, "argbox")
			v := e.load(st, a, pt.Elem())
			e.store(st, Val{T: r}, pt.Elem(), v.T)
			e.frameOff = saved
			args[i] = Val{T: r}
			backs = append(backs, copyBack{a, r, pt.Elem()})
			e.assumed["pointer to a local, field or element passed to a contracted callee by copy-in/copy-out (the callee has no other access path to that location)"] = true
		}
	}
	if len(backs) > 0 {
		defer func() {
			for _, b := range backs {
				v := e.load(st, Val{T: b.r}, b.ty)
				e.store(st, b.p, b.ty, v.T)
			}
		}()
	}
	savedW := e.witness
	e.witness = e.witnessFor(fr, st)
	defer func() { e.witness = savedW }()
	for _, cl := range sp.Requires {
		t := e.evalClauseCall(cl, args, nil, st, st)
		e.oblige(st, "pre", fmt.Sprintf("pre:%d:%s:%s", k, short, cl.Label), t, ins.Pos())
	}
	pre := st.clone()
	// effects
	if sp.HasModifies {
		locs := e.modLocs(sp, args, pre)
		for _, l := range locs {
			srt := e.heapSorts[l.arr]
			cur := e.heapGet(st, l.arr, srt)
			_, es := arrayParts(cur.sort)
			e.frameCheck(st, l.arr, l.ref)
			e.heapSet(st, l.arr, c.Store(cur, l.ref, c.Fresh(l.arr+"@call", es)))
		}
		e.bumpAlloc(st)
		for _, pk := range sp.ModPkgs {
			if e.frameOn && !e.frameOff {
				e.wholeArrayFrame(st, "pkg "+pk)
			}
			e.havocPkg(st, pk)
		}
	} else if len(sp.ModPkgs) > 0 {
		for _, pk := range sp.ModPkgs {
			if e.frameOn && !e.frameOff {
				e.wholeArrayFrame(st, "pkg "+pk)
			}
			e.havocPkg(st, pk)
		}
	} else if sp.Assume && !sp.Havoc {
		// assumed pure
	} else {
		mw := e.eng.mayWrite(callee)
		if mw.all {
			e.havocAll(st)
		} else {
			for n, srt := range mw.heap {
				if e.frameOn && !e.frameOff {
					e.wholeArrayFrame(st, n)
				}
				e.heapSet(st, n, c.Fresh(n+"@call", e.fixSort(srt)))
			}
			e.bumpAlloc(st)
		}
	}
	var results []Val
	var ret Val
	if t, ok := rtyp.(*types.Tuple); ok {
		for i := 0; i < t.Len(); i++ {
			results = append(results, e.havocValFresh(st, t.At(i).Type(), fmt.Sprintf("%s.ret%d", sanitize(callee.Name()), i)))
		}
		ret = Val{Tup: results}
		if t.Len() == 0 {
			ret = Val{}
		}
	} else {
		r := e.havocValFresh(st, rtyp, sanitize(callee.Name())+".ret")
		results = []Val{r}
		ret = r
	}
	for _, cl := range sp.Ensures {
		// a postcondition that speaks about the callee's own locals or inner calls (result_of, arg_of) means nothing
		// to a caller: it is proved on the callee and simply not used here
		internal := false
		for _, p := range cl.Params {
			if p.Kind != pkParam && p.Kind != pkResult {
				internal = true
			}
		}
		if internal {
			continue
		}
		e.assume(st, e.evalClauseCall(cl, args, results, st, pre))
	}
	if sp.Assume {
		e.assumed["assumed contract (not verified): "+sp.Name] = true
	}
	return ret
}

// havocValFresh: like havocVal but refs may be newly allocated (<= new allocTop).
func (e *Exec) havocValFresh(st *State, ty types.Type, hint string) Val {
	return e.havocVal(st, ty, hint)
}

func (e *Exec) wholeArrayFrame(st *State, arr string) {
	// a package-scoped effect is covered when the function under verification declares the same package
	if e.top != nil {
		for _, pk := range e.top.ModPkgs {
			if arr == "pkg "+pk || arrayOfPkg(arr, pk) {
				return
			}
		}
	}
	e.oblige(st, "frame", "frame:"+arr+":whole", e.c.False(), token.NoPos)
}

// ---------- intrinsics of the specification language ----------

func (e *Exec) callClosure(clo *Closure, args []Val, st *State, fr *Frame) Val {
	oldSt := fr.oldEnd
	return e.evalPure(clo.fn, args, args, clo.bindings, st, oldSt)
}

func (e *Exec) intrinsic(fr *Frame, st *State, ins ssa.Instruction, callee *ssa.Function, name string, cc *ssa.CallCommon, args []Val) (Val, bool) {
	c := e.c
	base := callee.Name()
	if callee.Origin() != nil {
		base = callee.Origin().Name()
	}
	if !strings.HasPrefix(base, "__") {
		return Val{}, false
	}
	quant := func(forall bool, lo, hi *Term, clo *Closure) Val {
		if clo == nil {
			e.fail("quantifier body must be a function literal")
		}
		pt := clo.fn.Signature.Params().At(0).Type()
		bv := c.BoundVarNamed(clo.fn.String()+"."+clo.fn.Params[0].Name(), e.tm.Sort(pt))
		body := e.callClosure(clo, []Val{{T: bv}}, st, fr).T
		guard := e.tm.RangeFact(bv, pt)
		if lo != nil {
			guard = c.And(c.Le(lo, bv), c.Lt(bv, hi))
		}
		if forall {
			fa := c.Forall([]*Term{bv}, c.Implies(guard, body))
			// instance hints (implied by the quantified formula, so the conjunction is equivalent)
			if lo != nil && len(e.witness) > 0 && e.noWitness == 0 {
				parts := []*Term{fa}
				e.noWitness++
				for _, w := range e.witness {
					if w.sort != bv.sort || w.bound {
						continue
					}
					b := e.callClosure(clo, []Val{{T: w}}, st, fr).T
					parts = append(parts, c.Implies(c.And(c.Le(lo, w), c.Lt(w, hi)), b))
				}
				e.noWitness--
				if len(parts) == 1 {
					return Val{T: fa}
				}
				return Val{T: c.App("hint.and", "Bool", parts...)}
			}
			return Val{T: fa}
		}
		ex := c.Exists([]*Term{bv}, c.And(guard, body))
		// witness hints: instances of the body at integer locals of the verified function. Each disjunct
		// implies the existential, so the formula is equivalent; it only helps the solver.
		if lo != nil && len(e.witness) > 0 && e.noWitness == 0 {
			alts := []*Term{ex}
			e.noWitness++
			for _, w := range e.witness {
				if w.sort != bv.sort || w.bound {
					continue
				}
				b := e.callClosure(clo, []Val{{T: w}}, st, fr).T
				alts = append(alts, c.And(c.Le(lo, w), c.Lt(w, hi), b))
			}
			e.noWitness--
			if len(alts) == 1 {
				return Val{T: ex}
			}
			return Val{T: c.App("hint.or", "Bool", alts...)}
		}
		return Val{T: ex}
	}
	switch base {
	case "__forall":
		return quant(true, args[0].T, args[1].T, args[2].Clo), true
	case "__exists":
		return quant(false, args[0].T, args[1].T, args[2].Clo), true
	case "__forallT":
		return quant(true, nil, nil, args[0].Clo), true
	case "__existsT":
		return quant(false, nil, nil, args[0].Clo), true
	case "__old":
		if fr.oldVals == nil {
			return args[0], true // already in the old state
		}
		ov, ok := fr.oldVals[cc.Args[0]]
		if !ok {
			if k, isConst := cc.Args[0].(*ssa.Const); isConst {
				return e.constVal(k), true
			}
			e.fail("old(): value not available in old pass")
		}
		return ov, true
	case "__assert":
		lbl := "assert"
		if k, ok := cc.Args[0].(*ssa.Const); ok {
			lbl = strings.Trim(k.Value.ExactString(), "\"")
		}
		if e.pure > 0 {
			e.fail("__assert in pure context")
		}
		e.oblige(st, "assert", "assert:"+lbl, args[1].T, ins.Pos())
		return Val{}, true
	case "__assume":
		e.assume(st, args[0].T)
		e.assumed["explicit __assume in proc "+fr.fn.Name()] = true
		return Val{}, true
	case "__mod":
		if e.collectLocs == nil {
			e.fail("__mod outside modifies clause")
		}
		p := args[0]
		et := deref(cc.Args[0].Type())
		if p.P == nil {
			if isStructT(et) || memArrayT(et) {
				e.collectObjLocs(p.T, et)
				return Val{}, true
			}
			n, _ := e.boxArr(et)
			e.boxArrSort(et)
			*e.collectLocs = append(*e.collectLocs, Loc{n, p.T})
			return Val{}, true
		}
		switch p.P.kind {
		case pField:
			n, s := e.fieldArr(p.P.styp, p.P.fidx)
			e.heapSorts[n] = s
			*e.collectLocs = append(*e.collectLocs, Loc{n, p.P.obj})
		case pElem:
			n, s := e.memArr(p.P.elemT)
			e.heapSorts[n] = s
			*e.collectLocs = append(*e.collectLocs, Loc{n, p.P.obj})
		default:
			e.fail("__mod of a local")
		}
		return Val{}, true
	case "__modall":
		switch u := cc.Args[0].Type().Underlying().(type) {
		case *types.Slice:
			if isStructT(u.Elem()) {
				e.fail("__modall on slice of structs")
			}
			n, s := e.memArr(u.Elem())
			e.heapSorts[n] = s
			*e.collectLocs = append(*e.collectLocs, Loc{n, e.tm.SliceBase(args[0].T)})
		case *types.Map:
			dn, vn, ln, ks, vs := e.mapArrs(u)
			e.heapSorts[dn] = arrSort("Int", arrSort(ks, "Bool"))
			e.heapSorts[vn] = arrSort("Int", arrSort(ks, vs))
			e.heapSorts[ln] = arrSort("Int", "Int")
			*e.collectLocs = append(*e.collectLocs, Loc{dn, args[0].T}, Loc{vn, args[0].T}, Loc{ln, args[0].T})
		case *types.Pointer:
			e.collectObjLocs(args[0].T, u.Elem())
		default:
			e.fail("__modall on %s", cc.Args[0].Type())
		}
		return Val{}, true
	case "__sorted":
		// __sorted(s, less): no element is "less" than one before it - the formula the model of sort.Slice assumes
		if args[1].Clo == nil {
			e.fail("__sorted: the comparison must be a function literal")
		}
		return Val{T: e.sortedFormula(fr, st, args[0].T, args[1].Clo)}, true
	case "__disjoint":
		// two slices (or a slice and a string-free buffer) do not share a backing array
		return Val{T: c.Not(c.Eq(e.tm.SliceBase(args[0].T), e.tm.SliceBase(args[1].T)))}, true
	case "__has":
		mt, ok := cc.Args[0].Type().Underlying().(*types.Map)
		if !ok {
			e.fail("__has on a non-map")
		}
		dn, _, _, ks, _ := e.mapArrs(mt)
		dom := c.Select(e.heapGet(st, dn, arrSort("Int", arrSort(ks, "Bool"))), args[0].T)
		return Val{T: c.Select(dom, args[1].T)}, true
	case "__cases":
		// __cases(x, v1, v2, ...): always true; asks the next obligation to be split by x == vi
		h := &caseHint{x: args[0].T}
		vs := args[1]
		_ = vs
		if sl, ok := cc.Args[1].(*ssa.Slice); ok {
			_ = sl
		}
		for _, cv := range e.variadicConsts(fr, cc.Args[1]) {
			h.vals = append(h.vals, cv)
		}
		e.caseHint = h
		return Val{T: c.True()}, true
	case "__same":
		return Val{T: c.Same(args[0].T, args[1].T)}, true
	}
	return Val{}, false
}

func (e *Exec) boxArrSort(et types.Type) {
	n, s := e.boxArr(et)
	e.heapSorts[n] = s
}

func (e *Exec) collectObjLocs(r *Term, ty types.Type) {
	if isStructT(ty) {
		si := e.tm.Struct(ty)
		for i, f := range si.fields {
			if isStructT(f.typ) || memArrayT(f.typ) {
				e.collectObjLocs(e.sub(r, i), f.typ)
				continue
			}
			n, s := e.fieldArr(ty, i)
			e.heapSorts[n] = s
			*e.collectLocs = append(*e.collectLocs, Loc{n, r})
		}
		return
	}
	if memArrayT(ty) {
		n, s := e.memArr(ty.Underlying().(*types.Array).Elem())
		e.heapSorts[n] = s
		*e.collectLocs = append(*e.collectLocs, Loc{n, r})
		return
	}
	n, s := e.boxArr(ty)
	e.heapSorts[n] = s
	*e.collectLocs = append(*e.collectLocs, Loc{n, r})
}

// variadicConsts: the constant elements of a variadic argument built in the same function.
func (e *Exec) variadicConsts(fr *Frame, v ssa.Value) []*Term {
	sl, ok := v.(*ssa.Slice)
	if !ok {
		e.fail("__cases needs literal values")
	}
	arr, ok := sl.X.(*ssa.Alloc)
	if !ok {
		e.fail("__cases needs literal values")
	}
	byIdx := map[int64]*Term{}
	for _, r := range *arr.Referrers() {
		ia, ok := r.(*ssa.IndexAddr)
		if !ok {
			continue
		}
		k, ok := ia.Index.(*ssa.Const)
		if !ok {
			continue
		}
		for _, r2 := range *ia.Referrers() {
			if st, ok := r2.(*ssa.Store); ok {
				if cv, ok := st.Val.(*ssa.Const); ok {
					byIdx[k.Int64()] = e.constVal(cv).T
				}
			}
		}
	}
	var out []*Term
	for i := int64(0); i < int64(len(byIdx)); i++ {
		out = append(out, byIdx[i])
	}
	return out
}


// sortModel: sort.Slice / slices.SortFunc with a comparison closure. The elements are havocked, then assumed ordered
// as the closure says (evaluated symbolically on the new contents) and each drawn from the old contents.
func (e *Exec) sortModel(fr *Frame, st *State, ins ssa.Instruction, name string, cc *ssa.CallCommon, args []Val) bool {
	c := e.c
	if len(args) != 2 || args[1].Clo == nil {
		return false
	}
	clo := args[1].Clo
	var sv Val
	var st0 types.Type
	if strings.HasPrefix(name, "sort.") {
		mi, ok := cc.Args[0].(*ssa.MakeInterface)
		if !ok {
			return false
		}
		sv, st0 = e.operand(fr, mi.X), mi.X.Type()
	} else {
		sv, st0 = args[0], cc.Args[0].Type()
	}
	slt, ok := st0.Underlying().(*types.Slice)
	if !ok || sv.T == nil {
		return false
	}
	et := slt.Elem()
	base, off, ln := e.tm.SliceBase(sv.T), e.tm.SliceOff(sv.T), e.tm.SliceLen(sv.T)
	pre := st.clone()
	// havoc the elements
	if isStructT(et) {
		ms := newModSet()
		e.eng.addTypeWrites(ms, e, et)
		names := make([]string, 0, len(ms.heap))
		for n := range ms.heap {
			names = append(names, n)
		}
		sort.Strings(names)
		for _, n := range names {
			if e.frameOn && !e.frameOff {
				e.wholeArrayFrame(st, n)
			}
			e.heapSet(st, n, c.Fresh(n+"@sort", e.fixSort(ms.heap[n])))
		}
	} else {
		n, srt := e.memArr(et)
		e.frameCheck(st, n, base)
		mem := e.heapGet(st, n, srt)
		_, es := arrayParts(mem.sort)
		e.heapSet(st, n, c.Store(mem, base, c.Fresh(n+"@sort", es)))
	}
	elemAt := func(s *State, i *Term) Val {
		idx := c.Add(off, i)
		if isStructT(et) {
			return e.load(s, Val{T: e.elemRef(base, idx)}, et)
		}
		return e.load(s, Val{P: &Ptr{kind: pElem, obj: base, idx: idx, elemT: et}}, et)
	}
	pp := e.eng.fset.Position(ins.Pos())
	tag := fmt.Sprintf("sort.%d.%d", pp.Line, pp.Column)
	i, j := c.BoundVarNamed(tag+".i", "Int"), c.BoundVarNamed(tag+".j", "Int")
	guard := c.And(c.Le(c.Int(0), i), c.Lt(i, j), c.Lt(j, ln))
	if strings.HasPrefix(name, "sort.") {
		e.assume(st, e.sortedFormula(fr, st, sv.T, clo))
	} else {
		e.pure++
		ordered := c.Le(e.callClosure(clo, []Val{elemAt(st, i), elemAt(st, j)}, st, fr).T, c.Int(0))
		e.pure--
		e.assume(st, c.Forall([]*Term{i, j}, c.Implies(guard, ordered)))
	}
	// every element after the call is one of the elements before it
	e.pure++
	k := c.BoundVarNamed(tag+".k", "Int")
	same := c.Eq(elemAt(st, i).T, elemAt(pre, k).T)
	e.pure--
	e.assume(st, c.Forall([]*Term{i}, c.Implies(c.And(c.Le(c.Int(0), i), c.Lt(i, ln)), c.Exists([]*Term{k}, c.And(c.Le(c.Int(0), k), c.Lt(k, ln), same)))))
	e.assumed["sort with a comparison function: afterwards the elements are ordered as the function says and each is one of the elements before the call (multiplicities not modelled): "+name] = true
	return true
}


// appendStruct: append(s, x) for a slice of structs, one element. Elements of struct slices are objects
// elem(base, i) whose fields live in the per-field heap arrays, so a reallocation is a copy in every field array of the
// element type. Each array F becomes F' defined point-wise,
//
//	F'[r] = x.f                       if r is the field location of the new element
//	      = F[location in the old backing array]  if r is a field location of one of the first len(s) new elements
//	      = F[r]                      otherwise
//
// and that definition is instantiated at every index the query reads (instantiateLoopFrames).
func (e *Exec) appendStruct(fr *Frame, st *State, ins ssa.Instruction, cc *ssa.CallCommon, args []Val, et types.Type) *Term {
	c := e.c
	s := args[0].T
	base, off, ln, cp := e.tm.SliceBase(s), e.tm.SliceOff(s), e.tm.SliceLen(s), e.tm.SliceCap(s)
	xs := args[1].T
	xv := e.load(st, Val{T: e.elemRef(e.tm.SliceBase(xs), e.tm.SliceOff(xs))}, et).T
	fits := c.Le(c.Add(ln, c.Int(1)), cp)
	nb := c.Fresh("append.base", "Int")
	e.assume(st, c.And(c.Gt(nb, st.allocTop), c.Gt(nb, c.Int(0))))
	st.allocTop = nb
	ncap := c.Fresh("append.cap", "Int")
	e.assume(st, c.And(c.Ge(ncap, c.Add(ln, c.Int(1))), c.Le(ncap, c.Int(1<<40))))
	newBase := c.Ite(fits, base, nb)
	newOff := off // as for other slices: the copy keeps element offsets
	newCap := c.Ite(fits, cp, ncap)
	c.DeclareFun("sub", "(declare-fun sub (Int Int) Int)")
	c.DeclareFun("sub.par", "(declare-fun sub.par (Int) Int)")
	c.DeclareFun("sub.fld", "(declare-fun sub.fld (Int) Int)")
	c.DeclareFun("elem.par", "(declare-fun elem.par (Int) Int)")
	c.DeclareFun("elem.idx", "(declare-fun elem.idx (Int) Int)")
	c.DeclareFun("elem.isElem", "(declare-fun elem.isElem (Int) Bool)")
	pp := e.eng.fset.Position(ins.Pos())
	var walk func(ty types.Type, path []int, v *Term)
	walk = func(ty types.Type, path []int, v *Term) {
		si := e.tm.Struct(ty)
		for i, f := range si.fields {
			fv := c.Sel(f.sel, f.sort, i, si.ctor, v)
			if isStructT(f.typ) {
				walk(f.typ, append(append([]int{}, path...), i), fv)
				continue
			}
			var n, srt string
			p := path
			if memArrayT(f.typ) {
				n, srt = e.memArr(f.typ.Underlying().(*types.Array).Elem())
				p = append(append([]int{}, path...), i)
			} else {
				n, srt = e.fieldArr(ty, i)
			}
			srt = e.fixSort(srt)
			pathOf := func(root *Term) *Term {
				r := root
				for _, k := range p {
					r = e.sub(r, k)
				}
				return r
			}
			F := e.heapGet(st, n, srt)
			F2 := c.Fresh(n+"@append", srt)
			r := c.BoundVarNamed(fmt.Sprintf("ap.%d.%d.%s", pp.Line, pp.Column, n), "Int")
			root := r
			for range p {
				root = c.App("sub.par", "Int", root)
			}
			isPath := c.True()
			if len(p) > 0 {
				isPath = c.Eq(r, pathOf(root))
			}
			idx := c.App("elem.idx", "Int", root)
			inNew := c.And(isPath, c.App("elem.isElem", "Bool", root), c.Eq(c.App("elem.par", "Int", root), newBase), c.Le(newOff, idx), c.Lt(idx, c.Add(newOff, ln)))
			src := pathOf(e.elemRef(base, c.Add(off, c.Sub(idx, newOff))))
			appended := pathOf(e.elemRef(newBase, c.Add(newOff, ln)))
			body := c.Eq(c.Select(F2, r), c.Ite(c.Eq(r, appended), fv, c.Ite(inNew, c.Select(F, src), c.Select(F, r))))
			q := c.ForallPat([]*Term{r}, body, c.Select(F2, r))
			e.loopFrames = append(e.loopFrames, &loopFrameRec{q: q, bv: r, body: body, newArr: F2})
			if e.frameOn && !e.frameOff {
				// in place, the append writes the location just past the old length
				e.frameCheckCond(st, n, pathOf(e.elemRef(base, c.Add(off, ln))), fits)
			}
			saved := e.frameOff
			e.frameOff = true
			e.heapSet(st, n, F2)
			e.frameOff = saved
			e.assume(st, q)
		}
	}
	walk(et, nil, xv)
	e.allocCheck(fr, st, ins, c.Ite(fits, c.Int(0), ncap))
	return e.tm.MkSlice(newBase, newOff, c.Add(ln, c.Int(1)), newCap)
}


// isContextCancel: v is the cancel function returned by context.WithCancel/WithDeadline/WithTimeout (directly, or
// through a local variable assigned only from such calls).
func isContextCancel(v ssa.Value, depth int) bool {
	if depth > 3 {
		return false
	}
	switch x := v.(type) {
	case *ssa.Extract:
		if c, ok := x.Tuple.(*ssa.Call); ok && x.Index == 1 {
			if f := c.Call.StaticCallee(); f != nil && strings.HasPrefix(f.String(), "context.With") {
				return true
			}
		}
	case *ssa.UnOp:
		a, ok := x.X.(*ssa.Alloc)
		if !ok || x.Op != token.MUL {
			return false
		}
		refs := a.Referrers()
		if refs == nil {
			return false
		}
		stores := 0
		for _, r := range *refs {
			switch y := r.(type) {
			case *ssa.Store:
				if y.Addr != ssa.Value(a) || !isContextCancel(y.Val, depth+1) {
					return false
				}
				stores++
			case *ssa.UnOp, *ssa.DebugRef:
			default:
				return false
			}
		}
		return stores > 0
	}
	return false
}


func isByteT(t types.Type) bool {
	b, ok := t.Underlying().(*types.Basic)
	return ok && b.Kind() == types.Uint8
}


// sortedFormula: forall 0 <= i < j < len(s): !less(j, i), with bound variables named after the slice so that the
// assumption made after sort.Slice and a __sorted(...) assertion about the same slice and the same comparison are the
// same term.
func (e *Exec) sortedFormula(fr *Frame, st *State, s *Term, clo *Closure) *Term {
	c := e.c
	tag := fmt.Sprintf("sorted.%d", e.tm.SliceBase(s).id)
	i, j := c.BoundVarNamed(tag+".i", "Int"), c.BoundVarNamed(tag+".j", "Int")
	guard := c.And(c.Le(c.Int(0), i), c.Lt(i, j), c.Lt(j, e.tm.SliceLen(s)))
	// a loop inside the comparison is cut: the outcome of the paths through it is arbitrary, so the order they would
	// establish is simply not assumed (the solver may take the comparison to be false there)
	e.pure++
	e.absLoops++
	less := e.callClosure(clo, []Val{{T: j}, {T: i}}, st, fr).T
	e.absLoops--
	e.pure--
	return c.Forall([]*Term{i, j}, c.Implies(guard, c.Not(less)))
}


// streamMethod: methods of the reader / writer / file interfaces. The stream behind such an interface value is not
// modelled; the call is assumed to change nothing of the modelled state except the byte buffer it is given to fill.
func (e *Exec) streamMethod(fr *Frame, st *State, ins ssa.Instruction, cc *ssa.CallCommon, args []Val, rtyp types.Type) (Val, bool) {
	fills := false
	switch cc.Method.Name() {
	case "ReadByte", "UnreadByte", "Write", "WriteAt", "WriteString", "WriteByte", "Sync", "Close", "Seek", "Chmod", "Name", "Stat", "Truncate":
	case "Read", "ReadAt":
		fills = true
	default:
		return Val{}, false
	}
	// only for interfaces of the standard library's io / fs families or structurally identical ones: the method set
	// must not mention types of the program under verification
	sig := cc.Method.Type().(*types.Signature)
	for i := 0; i < sig.Params().Len(); i++ {
		if named := namedPkg(sig.Params().At(i).Type()); named != "" && !stdPkg(named) {
			return Val{}, false
		}
	}
	if fills && len(args) > 0 && args[0].T != nil {
		if sl, ok := cc.Args[0].Type().Underlying().(*types.Slice); ok && isByteT(sl.Elem()) {
			n, srt := e.memArr(sl.Elem())
			base := e.tm.SliceBase(args[0].T)
			e.frameCheck(st, n, base)
			mem := e.heapGet(st, n, srt)
			_, es := arrayParts(mem.sort)
			e.heapSet(st, n, e.c.Store(mem, base, e.c.Fresh(n+"@read", es)))
		}
	}
	e.assumed["reader/writer/file interface methods change no modelled state except the buffer they fill (the stream itself is not modelled): "+cc.Method.Name()] = true
	var ret Val
	if t, ok := rtyp.(*types.Tuple); ok {
		if t.Len() == 0 {
			return Val{}, true
		}
		var rs []Val
		for i := 0; i < t.Len(); i++ {
			rs = append(rs, e.havocVal(st, t.At(i).Type(), cc.Method.Name()+".ret"))
		}
		ret = Val{Tup: rs}
	} else {
		ret = e.havocVal(st, rtyp, cc.Method.Name()+".ret")
	}
	if n := cc.Method.Name(); (n == "Read" || n == "Write") && len(args) == 1 && len(ret.Tup) == 2 && args[0].T != nil && ret.Tup[0].T != nil && ret.Tup[0].T.sort == "Int" {
		if sl, ok := cc.Args[0].Type().Underlying().(*types.Slice); ok && isByteT(sl.Elem()) {
			e.assume(st, e.c.And(e.c.Le(e.c.Int(0), ret.Tup[0].T), e.c.Le(ret.Tup[0].T, e.tm.SliceLen(args[0].T))))
			e.assumed["interface methods Read/Write([]byte) (int, error) return 0 <= n <= len(p) (io.Reader / io.Writer contract)"] = true
		}
	}
	return ret, true
}

func namedPkg(t types.Type) string {
	switch x := t.(type) {
	case *types.Named:
		if x.Obj().Pkg() != nil {
			return x.Obj().Pkg().Path()
		}
	case *types.Pointer:
		return namedPkg(x.Elem())
	case *types.Slice:
		return namedPkg(x.Elem())
	}
	return ""
}

func stdPkg(path string) bool {
	return !strings.Contains(strings.SplitN(path, "/", 2)[0], ".")
}
