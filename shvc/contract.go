package main

// Contract files: //@ lines in <pkgdir>/zz_verif_contracts.go (build tag verif).
// This file parses them and rewrites the specification syntax into Go.

import (
	"fmt"
	"go/token"
	"os"
	"regexp"
	"strconv"
	"strings"

	"golang.org/x/tools/go/ssa"
)

type paramKind int

const (
	pkParam paramKind = iota
	pkResult
	pkLocal
	pkRangeIdx // index of the element processed last by a range loop (-1 before the first)
	pkCallRes  // result_of(k, f): what the k-th call of f in this function returned (its latest execution)
	pkCallArg  // arg_of(k, f, i): the i-th argument of that call (0 = the receiver of a method call)
)

type ClauseParam struct {
	Kind  paramKind
	Index int
	Name  string
	Pos   token.Pos // declaring position for locals (phase-1 file set)
	File  string
	Off   int
	Snap  bool // before(x): read at the 'since' snapshot
}

type Clause struct {
	Label         string
	Text          string // original text
	Go            string // rewritten Go expression
	Line          int
	WrapperName   string
	Wrapper       *ssa.Function
	Params        []ClauseParam
	CurrentParams bool // parameters denote current values (loop invariants, asserts), not entry values
	LoopOrd       int  // for loop invariants: ordinal of the loop (rangeidx refers to its hidden index)
	Pos           token.Pos
	// loop invariants may be relative to a snapshot: "invariant since call K f: label: expr"
	SinceOrdinal int
	SinceCallee  string
	SinceFile    string
	SinceOff     int
}

type LoopSpec struct {
	Ordinal    int
	Invariants []Clause
	Decreases  *Clause
}

type CallAssert struct {
	SinceOrdinal int
	SinceCallee  string
	SinceFile    string
	SinceOff     int
	SinceEnd     int // 'since if k': snapshot before the first instruction of the k-th if statement's condition [SinceOff, SinceEnd)
	AtReturn bool
	File     string
	Off      int
	Before  bool
	Dead    bool // the anchor (call, return or if ordinal) no longer exists in the source
	Assume  bool // 'assume after call ...': an unchecked assumption, listed in the evidence
	Ordinal int
	Callee  string
	Clause  Clause
}

type FuncSpec struct {
	Name        string // as written: "(*T).m", "f", "pkg.f"
	PkgPath     string
	Line        int
	Requires    []Clause
	Ensures     []Clause
	Modifies    []string
	HasModifies bool
	TrustFrame  bool // modifies clause assumed (listed), other obligations of the body are checked
	ModWrapperN string
	ModWrapper  *ssa.Function
	ModParams   []ClauseParam
	Loops       map[int]*LoopSpec
	Asserts     []CallAssert
	Alloc       *Clause
	Safe        bool
	Inline      bool
	Overflow    bool
	FloatReal   bool
	Assume      bool
	Havoc       bool
	ModPkgs     []string
	Ghost       bool
	Uninterp    bool // assume func: the call is an uninterpreted function of its arguments, in code and in specs
	IsProc      bool
	Fn          *ssa.Function
}

type RawDecl struct {
	Kind string // "spec", "proc", "ghost"
	Text string
	Name string
	Line int
}

type ContractFile struct {
	Path    string
	PkgName string
	Funcs   []*FuncSpec
	Decls   []RawDecl
	Imports []string
}

var keywordRe = regexp.MustCompile(`^(func|assume|ghost|spec|proc|lemma|import|requires|ensures|modifies|loop|invariant|decreases|safe|inline|overflow|float|alloc|assert|havoc|uninterpreted|trust)\b`)
var labelRe = regexp.MustCompile(`^([A-Za-z_][A-Za-z0-9_]*):([^:=].*)$`)

func parseContractFile(path string) (*ContractFile, error) {
	data, err := os.ReadFile(path)
	if err != nil {
		return nil, err
	}
	cf := &ContractFile{Path: path}
	type ln struct {
		text string
		no   int
	}
	var lines []ln
	for i, l := range strings.Split(string(data), "\n") {
		t := strings.TrimSpace(l)
		if strings.HasPrefix(t, "package ") && cf.PkgName == "" {
			cf.PkgName = strings.TrimSpace(strings.TrimPrefix(t, "package "))
		}
		if !strings.HasPrefix(t, "//@") {
			continue
		}
		t = strings.TrimSpace(strings.TrimPrefix(t, "//@"))
		if t == "" || strings.HasPrefix(t, "#") {
			continue
		}
		lines = append(lines, ln{t, i + 1})
	}
	// join continuation lines and multi-line brace blocks
	var stmts []ln
	for i := 0; i < len(lines); i++ {
		l := lines[i]
		if strings.HasPrefix(l.text, "spec func") || strings.HasPrefix(l.text, "proc ") {
			depth := strings.Count(l.text, "{") - strings.Count(l.text, "}")
			txt := l.text
			for depth > 0 && i+1 < len(lines) {
				i++
				txt += "\n" + lines[i].text
				depth += strings.Count(lines[i].text, "{") - strings.Count(lines[i].text, "}")
			}
			stmts = append(stmts, ln{txt, l.no})
			continue
		}
		if !keywordRe.MatchString(l.text) && len(stmts) > 0 {
			stmts[len(stmts)-1].text += " " + l.text
			continue
		}
		stmts = append(stmts, l)
	}
	var cur *FuncSpec
	var curLoop *LoopSpec
	mkClause := func(rest string, line int, deflabel string) Clause {
		rest = strings.TrimSpace(rest)
		label := deflabel
		if m := labelRe.FindStringSubmatch(rest); m != nil {
			label = m[1]
			rest = strings.TrimSpace(m[2])
		}
		return Clause{Label: label, Text: rest, Go: rewriteSpec(rest), Line: line}
	}
	for _, s := range stmts {
		t := s.text
		word := keywordRe.FindString(t)
		rest := strings.TrimSpace(t[len(word):])
		if word == "assume" && !strings.HasPrefix(rest, "func") {
			word = "assumeat"
		}
		switch word {
		case "import":
			cf.Imports = append(cf.Imports, strings.Trim(rest, "\""))
		case "func", "assume":
			if word == "assume" {
				rest = strings.TrimSpace(strings.TrimPrefix(rest, "func"))
			}
			cur = &FuncSpec{Name: rest, Line: s.no, Loops: map[int]*LoopSpec{}, Assume: word == "assume"}
			curLoop = nil
			cf.Funcs = append(cf.Funcs, cur)
		case "ghost":
			rest = strings.TrimSpace(strings.TrimPrefix(rest, "func"))
			name := rest
			if i := strings.Index(name, "("); i >= 0 {
				name = name[:i]
			}
			cf.Decls = append(cf.Decls, RawDecl{Kind: "ghost", Text: "func " + rest + " { panic(\"ghost\") }", Name: strings.TrimSpace(name), Line: s.no})
			cf.Funcs = append(cf.Funcs, &FuncSpec{Name: strings.TrimSpace(name), Line: s.no, Ghost: true, Loops: map[int]*LoopSpec{}})
			cur = nil
		case "spec":
			rest = strings.TrimSpace(strings.TrimPrefix(rest, "func"))
			name := rest
			if i := strings.Index(name, "("); i >= 0 {
				name = name[:i]
			}
			cf.Decls = append(cf.Decls, RawDecl{Kind: "spec", Text: "func " + rewriteSpec(rest), Name: strings.TrimSpace(name), Line: s.no})
			cf.Funcs = append(cf.Funcs, &FuncSpec{Name: strings.TrimSpace(name), Line: s.no, Inline: true, Loops: map[int]*LoopSpec{}})
			cur = nil
		case "proc":
			name := rest
			if i := strings.Index(name, "("); i >= 0 {
				name = name[:i]
			}
			cf.Decls = append(cf.Decls, RawDecl{Kind: "proc", Text: "func " + rewriteSpec(rest), Name: strings.TrimSpace(name), Line: s.no})
			cur = &FuncSpec{Name: strings.TrimSpace(name), Line: s.no, IsProc: true, Loops: map[int]*LoopSpec{}}
			curLoop = nil
			cf.Funcs = append(cf.Funcs, cur)
		case "lemma":
			// lemma name(params): expr   ==> proc with one assert
			i := strings.Index(rest, "):")
			if i < 0 {
				return nil, fmt.Errorf("%s:%d: bad lemma", path, s.no)
			}
			head, body := rest[:i+1], strings.TrimSpace(rest[i+2:])
			name := head[:strings.Index(head, "(")]
			cf.Decls = append(cf.Decls, RawDecl{Kind: "proc", Text: "func " + head + " { __assert(\"holds\", " + rewriteSpec(body) + ") }", Name: name, Line: s.no})
			cur = &FuncSpec{Name: name, Line: s.no, IsProc: true, Loops: map[int]*LoopSpec{}}
			curLoop = nil
			cf.Funcs = append(cf.Funcs, cur)
		default:
			if cur == nil {
				return nil, fmt.Errorf("%s:%d: clause outside a func", path, s.no)
			}
			switch word {
			case "requires":
				cur.Requires = append(cur.Requires, mkClause(rest, s.no, fmt.Sprintf("r%d", len(cur.Requires)+1)))
			case "ensures":
				cur.Ensures = append(cur.Ensures, mkClause(rest, s.no, fmt.Sprintf("e%d", len(cur.Ensures)+1)))
			case "modifies":
				if strings.HasPrefix(rest, "pkg ") {
					cur.ModPkgs = append(cur.ModPkgs, strings.Fields(rest)[1:]...)
					break
				}
				cur.HasModifies = true
				if rest != "nothing" && rest != "" {
					cur.Modifies = append(cur.Modifies, splitTop(rest, ',')...)
				}
			case "loop":
				k, err := strconv.Atoi(strings.TrimSuffix(strings.TrimSpace(rest), ":"))
				if err != nil {
					return nil, fmt.Errorf("%s:%d: bad loop ordinal", path, s.no)
				}
				curLoop = &LoopSpec{Ordinal: k}
				cur.Loops[k] = curLoop
			case "invariant":
				if curLoop == nil {
					return nil, fmt.Errorf("%s:%d: invariant outside loop", path, s.no)
				}
				sinceK, sinceF := 0, ""
				if f := strings.Fields(rest); len(f) > 4 && f[0] == "since" && f[1] == "call" {
					k, err := strconv.Atoi(f[2])
					if err != nil {
						return nil, fmt.Errorf("%s:%d: bad since ordinal", path, s.no)
					}
					sinceK, sinceF = k, strings.TrimSuffix(f[3], ":")
					rest = strings.TrimSpace(rest[strings.Index(rest, f[3])+len(f[3]):])
					rest = strings.TrimSpace(strings.TrimPrefix(rest, ":"))
				}
				cl := mkClause(rest, s.no, fmt.Sprintf("i%d", len(curLoop.Invariants)+1))
				cl.SinceOrdinal, cl.SinceCallee = sinceK, sinceF
				cl.CurrentParams = true
				cl.LoopOrd = curLoop.Ordinal
				curLoop.Invariants = append(curLoop.Invariants, cl)
			case "decreases":
				if curLoop == nil {
					return nil, fmt.Errorf("%s:%d: decreases outside loop", path, s.no)
				}
				cl := mkClause(rest, s.no, "dec")
				cl.CurrentParams = true
				curLoop.Decreases = &cl
			case "safe":
				cur.Safe = true
			case "inline":
				cur.Inline = true
			case "overflow":
				cur.Overflow = true
			case "havoc":
				cur.Havoc = true
			case "uninterpreted":
				cur.Uninterp = true
			case "trust":
				// "trust frame": the modifies clause is used by callers but not checked against the body
				if strings.TrimSpace(rest) == "frame" {
					cur.TrustFrame = true
				}
			case "float":
				cur.FloatReal = strings.TrimSpace(rest) == "real"
			case "alloc":
				cl := mkClause(rest, s.no, "alloc")
				cl.CurrentParams = true
				cur.Alloc = &cl
			case "assert", "assumeat":
				// assert at return k: label: expr
				if strings.HasPrefix(rest, "at return ") {
					f := strings.Fields(rest)
					k, err := strconv.Atoi(strings.TrimSuffix(f[2], ":"))
					if err != nil {
						return nil, fmt.Errorf("%s:%d: bad return ordinal", path, s.no)
					}
					idx := strings.Index(rest, f[2]) + len(f[2])
					cl := mkClause(rest[idx:], s.no, fmt.Sprintf("a%d", len(cur.Asserts)+1))
					cl.CurrentParams = true
					cur.Asserts = append(cur.Asserts, CallAssert{AtReturn: true, Ordinal: k, Clause: cl})
					break
				}
				// assert before|after call k callee: label: expr
				f := strings.Fields(rest)
				if len(f) < 5 || f[1] != "call" {
					return nil, fmt.Errorf("%s:%d: bad assert", path, s.no)
				}
				k, err := strconv.Atoi(f[2])
				if err != nil {
					return nil, fmt.Errorf("%s:%d: bad call ordinal", path, s.no)
				}
				callee := strings.TrimSuffix(f[3], ":")
				idx := strings.Index(rest, f[3]) + len(f[3])
				ca := CallAssert{Before: f[0] == "before", Ordinal: k, Callee: callee, Assume: word == "assumeat"}
				// optional: "since call K NAME:" — old() refers to the state just before that call
				if len(f) > 7 && f[4] == "since" && f[5] == "if" {
					sk, err := strconv.Atoi(strings.TrimSuffix(f[6], ":"))
					if err != nil {
						return nil, fmt.Errorf("%s:%d: bad since ordinal", path, s.no)
					}
					ca.SinceOrdinal, ca.SinceCallee = sk, "if"
					idx = strings.Index(rest, " if "+f[6]) + 4 + len(f[6])
				} else if len(f) > 8 && f[4] == "since" && f[5] == "call" {
					sk, err := strconv.Atoi(f[6])
					if err != nil {
						return nil, fmt.Errorf("%s:%d: bad since ordinal", path, s.no)
					}
					ca.SinceOrdinal, ca.SinceCallee = sk, strings.TrimSuffix(f[7], ":")
					idx = strings.Index(rest, " "+f[7]) + 1 + len(f[7])
				}
				cl := mkClause(rest[idx:], s.no, fmt.Sprintf("a%d", len(cur.Asserts)+1))
				cl.CurrentParams = true
				ca.Clause = cl
				cur.Asserts = append(cur.Asserts, ca)
			}
		}
	}
	return cf, nil
}

// splitTop splits s at sep occurring outside brackets.
func splitTop(s string, sep byte) []string {
	var out []string
	depth := 0
	start := 0
	for i := 0; i < len(s); i++ {
		switch s[i] {
		case '(', '[', '{':
			depth++
		case ')', ']', '}':
			depth--
		default:
			if s[i] == sep && depth == 0 {
				out = append(out, strings.TrimSpace(s[start:i]))
				start = i + 1
			}
		}
	}
	out = append(out, strings.TrimSpace(s[start:]))
	return out
}

// rewriteSpec turns the specification syntax into Go:
//   a ==> b          (!(a) || (b))     lowest precedence, right associative
//   a <==> b         ((a) == (b))
//   forall i in lo..hi :: body     __forall(int(lo), int(hi), func(i int) bool { return body })
//   exists i in lo..hi :: body
//   forall x T :: body             __forallT(func(x T) bool { return body })
//   old(e)           __old(e)
var resultOfRe = regexp.MustCompile(`\bresult_of\(\s*([0-9]+)\s*,\s*([A-Za-z_][A-Za-z0-9_]*)\s*\)`)
var resultOfIdxRe = regexp.MustCompile(`\bresult_of\(\s*([0-9]+)\s*,\s*([A-Za-z_][A-Za-z0-9_]*)\s*,\s*([0-9]+)\s*\)`)
var argOfRe = regexp.MustCompile(`\barg_of\(\s*([0-9]+)\s*,\s*([A-Za-z_][A-Za-z0-9_]*)\s*,\s*([0-9]+)\s*\)`)
var beforeRe = regexp.MustCompile(`\bbefore\(([A-Za-z_][A-Za-z0-9_]*)\)`)

func rewriteSpec(s string) string {
	// before(x): the value a scalar local had at the clause's "since" snapshot
	s = beforeRe.ReplaceAllString(s, "before_$1")
	s = resultOfIdxRe.ReplaceAllString(s, "resultofi_${1}_${3}_$2")
	s = resultOfRe.ReplaceAllString(s, "resultof_${1}_$2")
	s = argOfRe.ReplaceAllString(s, "argof_${1}_${3}_$2")
	s = strings.ReplaceAll(s, "old(", "__old(")
	s = strings.ReplaceAll(s, "__ __old(", "__old(")
	return rewriteGroup(s)
}

func rewriteGroup(s string) string {
	return rewriteFlat(rewriteGroupNoFlat(s))
}

func joinParts(parts []string) string {
	var sb strings.Builder
	for k, p := range parts {
		if k > 0 {
			sb.WriteString(", ")
		}
		sb.WriteString(rewriteGroup(p))
	}
	return sb.String()
}

func closeOf(ch byte) byte {
	switch ch {
	case '(':
		return ')'
	case '[':
		return ']'
	}
	return '}'
}

func matchClose(s string, i int) int {
	depth := 0
	for j := i; j < len(s); j++ {
		switch s[j] {
		case '"':
			j++
			for j < len(s) && s[j] != '"' {
				if s[j] == '\\' {
					j++
				}
				j++
			}
		case '(', '[', '{':
			depth++
		case ')', ']', '}':
			depth--
			if depth == 0 {
				return j
			}
		}
	}
	return len(s) - 1
}

func rewriteBlock(inner string) string {
	// split statements at top-level newlines / semicolons
	var out []string
	depth := 0
	start := 0
	for i := 0; i < len(inner); i++ {
		switch inner[i] {
		case '(', '[', '{':
			depth++
		case ')', ']', '}':
			depth--
		case '\n', ';':
			if depth == 0 {
				out = append(out, inner[start:i])
				start = i + 1
			}
		}
	}
	out = append(out, inner[start:])
	for i, st := range out {
		out[i] = rewriteStmt(st)
	}
	return strings.Join(out, "\n")
}

var assignRe = regexp.MustCompile(`^(\s*(?:var\s+)?[A-Za-z_][A-Za-z0-9_, .\[\]*]*?\s*(?::=|=)\s*)(.*)$`)
var kwStmtRe = regexp.MustCompile(`^(\s*(?:return|if|for|else|\}\s*else)\b\s*)(.*)$`)

func rewriteStmt(st string) string {
	if strings.TrimSpace(st) == "" {
		return st
	}
	// statements containing blocks (if/for) are handled by group rewriting of their parts
	if strings.Contains(st, "{") {
		return rewriteGroupNoFlat(st)
	}
	if m := kwStmtRe.FindStringSubmatch(st); m != nil {
		return m[1] + rewriteGroup(m[2])
	}
	if m := assignRe.FindStringSubmatch(st); m != nil && !strings.Contains(m[1], "==") {
		return m[1] + rewriteGroup(m[2])
	}
	return rewriteGroup(st)
}

// rewriteGroupNoFlat rewrites nested groups but does not treat the whole text as one expression.
func rewriteGroupNoFlat(s string) string {
	var sb strings.Builder
	i := 0
	for i < len(s) {
		ch := s[i]
		if ch == '"' {
			j := i + 1
			for j < len(s) && s[j] != '"' {
				if s[j] == '\\' {
					j++
				}
				j++
			}
			if j >= len(s) {
				j = len(s) - 1
			}
			sb.WriteString(s[i : j+1])
			i = j + 1
			continue
		}
		if ch == '(' || ch == '[' || ch == '{' {
			j := matchClose(s, i)
			inner := s[i+1 : j]
			sb.WriteByte(ch)
			if ch == '{' {
				sb.WriteString(rewriteBlock(inner))
			} else {
				sb.WriteString(joinParts(splitTop(inner, ',')))
			}
			sb.WriteByte(closeOf(ch))
			i = j + 1
			continue
		}
		sb.WriteByte(ch)
		i++
	}
	return sb.String()
}

var forallInRe = regexp.MustCompile(`^\s*(forall|exists)\s+([A-Za-z_][A-Za-z0-9_]*)\s+in\s+(.*)$`)
var forallTRe = regexp.MustCompile(`^\s*(forall|exists)\s+([A-Za-z_][A-Za-z0-9_]*)\s+([*A-Za-z_][A-Za-z0-9_.\[\]*]*)\s*::(.*)$`)

// rewriteFlat handles quantifiers and implications in a text whose bracket groups are already rewritten.
func rewriteFlat(s string) string {
	// implication: lowest precedence; find first top-level ==> (right assoc)
	if i := indexTop(s, "<==>"); i >= 0 {
		return "((" + rewriteFlat(s[:i]) + ") == (" + rewriteFlat(s[i+4:]) + "))"
	}
	// quantifier extends as far right as possible, so test before ==> only if it starts the text
	if m := forallInRe.FindStringSubmatch(s); m != nil {
		rest := m[3]
		k := indexTop(rest, "::")
		if k >= 0 {
			rng := rest[:k]
			body := rest[k+2:]
			d := indexTop(rng, "..")
			if d >= 0 {
				fn := "__forall"
				if m[1] == "exists" {
					fn = "__exists"
				}
				return fmt.Sprintf("%s(int(%s), int(%s), func(%s int) bool { return %s })", fn, strings.TrimSpace(rng[:d]), strings.TrimSpace(rng[d+2:]), m[2], rewriteFlat(body))
			}
		}
	}
	if m := forallTRe.FindStringSubmatch(s); m != nil {
		fn := "__forallT"
		if m[1] == "exists" {
			fn = "__existsT"
		}
		return fmt.Sprintf("%s(func(%s %s) bool { return %s })", fn, m[2], m[3], rewriteFlat(m[4]))
	}
	if i := indexTop(s, "==>"); i >= 0 {
		return "(!(" + rewriteFlat(s[:i]) + ") || (" + rewriteFlat(s[i+3:]) + "))"
	}
	// quantifier after && / || prefix: "a && forall ..." — split at the quantifier keyword
	for _, kw := range []string{"forall ", "exists "} {
		if i := indexTopWord(s, kw); i > 0 {
			return s[:i] + "(" + rewriteFlat(s[i:]) + ")"
		}
	}
	return s
}

func indexTop(s, pat string) int {
	depth := 0
	for i := 0; i+len(pat) <= len(s); i++ {
		switch s[i] {
		case '"':
			i++
			for i < len(s) && s[i] != '"' {
				if s[i] == '\\' {
					i++
				}
				i++
			}
			continue
		case '(', '[', '{':
			depth++
		case ')', ']', '}':
			depth--
		}
		if depth == 0 && strings.HasPrefix(s[i:], pat) {
			if pat == "==>" && i > 0 && s[i-1] == '<' {
				continue
			}
			return i
		}
	}
	return -1
}

func indexTopWord(s, kw string) int {
	i := indexTop(s, kw)
	if i > 0 {
		prev := s[i-1]
		if prev == ' ' || prev == '(' || prev == '!' {
			return i
		}
	}
	return -1
}
