package main

// Mapping of Go types to SMT sorts, zero values, range typing, heap array names.

import (
	"hash/fnv"
	"fmt"
	"go/types"
	"math/big"
	"strings"
)

const (
	sortFP64 = "(_ FloatingPoint 11 53)"
	sortFP32 = "(_ FloatingPoint 8 24)"
)

type TypeMap struct {
	c         *TermCtx
	floatReal bool
	structs   map[string]*structInfo // by sort name
	anon      int
	anonNames map[string]string
	strLits   []string
}

type structInfo struct {
	sort   string
	ctor   string
	st     *types.Struct
	fields []fieldInfo
}
type fieldInfo struct {
	name string
	sel  string
	sort string
	typ  types.Type
}

func NewTypeMap(c *TermCtx) *TypeMap {
	return &TypeMap{c: c, structs: map[string]*structInfo{}, anonNames: map[string]string{}}
}

func typeName(t types.Type) string {
	return types.TypeString(t, func(p *types.Package) string {
		path := p.Path()
		path = strings.TrimPrefix(path, "github.com/VKCOM/statshouse/internal/")
		path = strings.TrimPrefix(path, "github.com/VKCOM/statshouse/")
		if i := strings.LastIndex(path, "/"); i >= 0 && !strings.HasPrefix(path, "internal/") {
			// keep enough of the path to be unique: last two elements
			if j := strings.LastIndex(path[:i], "/"); j >= 0 {
				path = path[j+1:]
			}
		}
		return strings.ReplaceAll(path, "/", ".")
	})
}

func (tm *TypeMap) structName(t types.Type) string {
	if n, ok := types.Unalias(t).(*types.Named); ok {
		return "S_" + sanitize(typeName(n))
	}
	key := typeName(t)
	if n, ok := tm.anonNames[key]; ok {
		return n
	}
	// the name must not depend on the order in which types are met: sort strings computed by the (shared) write-set
	// analysis are compared with the ones of the function being verified
	tm.anon++
	h := fnv.New32a()
	h.Write([]byte(key))
	n := fmt.Sprintf("S_anon%08x", h.Sum32())
	tm.anonNames[key] = n
	return n
}

// keyName is the name used in heap array names for a type.
func (tm *TypeMap) keyName(t types.Type) string {
	t = types.Unalias(t)
	if _, ok := t.Underlying().(*types.Struct); ok {
		return tm.structName(t)[2:]
	}
	if b, ok := t.(*types.Basic); ok && b.Kind() != types.Invalid && int(b.Kind()) < len(types.Typ) {
		return types.Typ[b.Kind()].Name() // byte -> uint8, rune -> int32
	}
	return sanitize(typeName(t))
}

func (tm *TypeMap) Struct(t types.Type) *structInfo {
	st, ok := t.Underlying().(*types.Struct)
	if !ok {
		panic("not a struct: " + t.String())
	}
	name := tm.structName(t)
	if si, ok := tm.structs[name]; ok {
		return si
	}
	si := &structInfo{sort: name, ctor: "mk-" + name, st: st}
	tm.structs[name] = si // pre-register (recursion only through pointers, which are Int)
	var sb strings.Builder
	fmt.Fprintf(&sb, "(declare-datatypes ((%s 0)) (((%s", name, si.ctor)
	for i := 0; i < st.NumFields(); i++ {
		f := st.Field(i)
		fs := tm.Sort(f.Type())
		sel := fmt.Sprintf("%s.%s", name, sanitize(f.Name()))
		if f.Name() == "_" {
			sel = fmt.Sprintf("%s._%d", name, i)
		}
		si.fields = append(si.fields, fieldInfo{name: f.Name(), sel: sel, sort: fs, typ: f.Type()})
		fmt.Fprintf(&sb, " (%s %s)", sel, fs)
	}
	sb.WriteString("))))")
	tm.c.DeclareDatatype(name, sb.String())
	return si
}

func (tm *TypeMap) declSlice() {
	tm.c.DeclareDatatype("Slice", "(declare-datatypes ((Slice 0)) (((mk-slice (s.base Int) (s.off Int) (s.len Int) (s.cap Int)))))")
}
func (tm *TypeMap) declStr() {
	tm.c.DeclareDatatype("Str", "(declare-sort Str 0)")
	tm.c.DeclareFun("str.len", "(declare-fun str.len (Str) Int)")
	tm.c.DeclareFun("str.at", "(declare-fun str.at (Str Int) Int)")
}

func (tm *TypeMap) Sort(t types.Type) string {
	switch u := t.Underlying().(type) {
	case *types.Basic:
		switch {
		case u.Info()&types.IsBoolean != 0:
			return "Bool"
		case u.Info()&types.IsInteger != 0:
			return "Int"
		case u.Info()&types.IsFloat != 0:
			if tm.floatReal {
				return "Real"
			}
			if u.Kind() == types.Float32 {
				return sortFP32
			}
			return sortFP64
		case u.Info()&types.IsString != 0:
			tm.declStr()
			return "Str"
		case u.Kind() == types.UnsafePointer:
			return "Int"
		case u.Kind() == types.UntypedNil:
			return "Int"
		case u.Info()&types.IsComplex != 0:
			return "Int"
		}
	case *types.Pointer, *types.Map, *types.Chan, *types.Signature, *types.Interface:
		return "Int"
	case *types.Slice:
		tm.declSlice()
		return "Slice"
	case *types.Struct:
		return tm.Struct(t).sort
	case *types.Array:
		return arrSort("Int", tm.Sort(u.Elem()))
	case *types.Tuple:
		return "Tuple"
	case *types.TypeParam:
		return "Int"
	}
	panic("no sort for type " + t.String())
}

func intRange(b *types.Basic) (lo, hi *big.Int, ok bool) {
	one := big.NewInt(1)
	pow := func(n uint) *big.Int { return new(big.Int).Lsh(one, n) }
	sgn := func(n uint) (*big.Int, *big.Int, bool) {
		return new(big.Int).Neg(pow(n - 1)), new(big.Int).Sub(pow(n-1), one), true
	}
	uns := func(n uint) (*big.Int, *big.Int, bool) {
		return big.NewInt(0), new(big.Int).Sub(pow(n), one), true
	}
	switch b.Kind() {
	case types.Int8:
		return sgn(8)
	case types.Int16:
		return sgn(16)
	case types.Int32:
		return sgn(32)
	case types.Int64, types.Int, types.UntypedInt, types.UntypedRune:
		return sgn(64)
	case types.Uint8:
		return uns(8)
	case types.Uint16:
		return uns(16)
	case types.Uint32:
		return uns(32)
	case types.Uint64, types.Uint, types.Uintptr:
		return uns(64)
	}
	return nil, nil, false
}

func isUnsigned(t types.Type) bool {
	b, ok := t.Underlying().(*types.Basic)
	return ok && b.Info()&types.IsUnsigned != 0
}
func isInteger(t types.Type) bool {
	b, ok := t.Underlying().(*types.Basic)
	return ok && b.Info()&types.IsInteger != 0
}
func isFloat(t types.Type) bool {
	b, ok := t.Underlying().(*types.Basic)
	return ok && b.Info()&types.IsFloat != 0
}
func isString(t types.Type) bool {
	b, ok := t.Underlying().(*types.Basic)
	return ok && b.Info()&types.IsString != 0
}
func isBool(t types.Type) bool {
	b, ok := t.Underlying().(*types.Basic)
	return ok && b.Info()&types.IsBoolean != 0
}
func intBits(t types.Type) uint {
	b := t.Underlying().(*types.Basic)
	switch b.Kind() {
	case types.Int8, types.Uint8:
		return 8
	case types.Int16, types.Uint16:
		return 16
	case types.Int32, types.Uint32:
		return 32
	}
	return 64
}

// RangeFact returns the typing constraint of term t of Go type ty (true if none).
func (tm *TypeMap) RangeFact(t *Term, ty types.Type) *Term {
	c := tm.c
	switch u := ty.Underlying().(type) {
	case *types.Basic:
		if lo, hi, ok := intRange(u); ok {
			return c.And(c.Le(c.BigInt(lo), t), c.Le(t, c.BigInt(hi)))
		}
		if isString(ty) {
			return c.Ge(c.App("str.len", "Int", t), c.Int(0))
		}
	case *types.Slice:
		ln := tm.SliceLen(t)
		cp := tm.SliceCap(t)
		off := tm.SliceOff(t)
		base := tm.SliceBase(t)
		return c.And(c.Le(c.Int(0), ln), c.Le(ln, cp), c.Le(c.Int(0), off),
			c.Implies(c.Eq(base, c.Int(0)), c.Eq(cp, c.Int(0))), c.Le(cp, c.Int(1<<40)))
	case *types.Struct:
		si := tm.Struct(ty)
		var fs []*Term
		for i, f := range si.fields {
			if needsRange(f.typ) {
				fs = append(fs, tm.RangeFact(c.Sel(f.sel, f.sort, i, si.ctor, t), f.typ))
			}
		}
		return c.And(fs...)
	case *types.Map, *types.Chan, *types.Signature, *types.Interface:
		return c.Ge(t, c.Int(0))
	case *types.Pointer:
		return c.True() // sub-object refs are negative
	}
	return c.True()
}

func needsRange(ty types.Type) bool {
	switch u := ty.Underlying().(type) {
	case *types.Basic:
		return u.Info()&types.IsInteger != 0 || u.Info()&types.IsString != 0
	case *types.Slice, *types.Map, *types.Chan, *types.Signature, *types.Interface:
		return true
	case *types.Struct:
		for i := 0; i < u.NumFields(); i++ {
			if needsRange(u.Field(i).Type()) {
				return true
			}
		}
	}
	return false
}

func (tm *TypeMap) SliceBase(s *Term) *Term { return tm.c.Sel("s.base", "Int", 0, "mk-slice", s) }
func (tm *TypeMap) SliceOff(s *Term) *Term  { return tm.c.Sel("s.off", "Int", 1, "mk-slice", s) }
func (tm *TypeMap) SliceLen(s *Term) *Term  { return tm.c.Sel("s.len", "Int", 2, "mk-slice", s) }
func (tm *TypeMap) SliceCap(s *Term) *Term  { return tm.c.Sel("s.cap", "Int", 3, "mk-slice", s) }
func (tm *TypeMap) MkSlice(base, off, ln, cp *Term) *Term {
	tm.declSlice()
	return tm.c.App("mk-slice", "Slice", base, off, ln, cp)
}

func (tm *TypeMap) FPZero(sort string) *Term {
	if sort == "Real" {
		return tm.c.Lit("0.0", "Real")
	}
	if sort == sortFP32 {
		return tm.c.Lit("(_ +zero 8 24)", sortFP32)
	}
	return tm.c.Lit("(_ +zero 11 53)", sortFP64)
}

func (tm *TypeMap) Zero(ty types.Type) *Term {
	c := tm.c
	switch u := ty.Underlying().(type) {
	case *types.Basic:
		switch {
		case u.Info()&types.IsBoolean != 0:
			return c.False()
		case u.Info()&types.IsFloat != 0:
			return tm.FPZero(tm.Sort(ty))
		case u.Info()&types.IsString != 0:
			return tm.StrLit("")
		}
		return c.Int(0)
	case *types.Slice:
		return tm.MkSlice(c.Int(0), c.Int(0), c.Int(0), c.Int(0))
	case *types.Struct:
		si := tm.Struct(ty)
		args := make([]*Term, len(si.fields))
		for i, f := range si.fields {
			args[i] = tm.Zero(f.typ)
		}
		return c.App(si.ctor, si.sort, args...)
	case *types.Array:
		es := tm.Sort(u.Elem())
		return c.App("(as const "+arrSort("Int", es)+")", arrSort("Int", es), tm.Zero(u.Elem()))
	}
	return c.Int(0)
}

// StrLit returns the constant for a string literal, with length and byte facts.
func (tm *TypeMap) StrLit(s string) *Term {
	tm.declStr()
	c := tm.c
	name := fmt.Sprintf("strlit_%x", s)
	if len(name) > 60 {
		name = fmt.Sprintf("strlit_%x_%d", s[:20], len(s))
		{
			// disambiguate long literals by content hash (deterministic: same literal, same name)
			h := 0
			for _, b := range []byte(s) {
				h = h*131 + int(b)
				h &= 0xffffffff
			}
			name = fmt.Sprintf("%s_%x", name, h)
		}
	}
	t := c.Const(name, "Str")
	c.AddFact(t, c.Eq(c.App("str.len", "Int", t), c.Int(int64(len(s)))))
	c.DeclareFun("str.id", "(declare-fun str.id (Str) Int)")
	// distinct literals are distinct strings: give each a distinct id through an injective numbering
	tm.strLits = appendUnique(tm.strLits, s)
	for i, o := range tm.strLits {
		if o == s {
			c.AddFact(t, c.Eq(c.App("str.id", "Int", t), c.Int(int64(i+1))))
		}
	}
	if len(s) <= 16 {
		for i := 0; i < len(s); i++ {
			c.AddFact(t, c.Eq(c.App("str.at", "Int", t, c.Int(int64(i))), c.Int(int64(s[i]))))
		}
	}
	return t
}

func appendUnique(xs []string, s string) []string {
	for _, x := range xs {
		if x == s {
			return xs
		}
	}
	return append(xs, s)
}

// Fresh typed value: for structs and slices the leaves are separate constants
// so that models can be read back field by field.
func (tm *TypeMap) FreshTyped(hint string, ty types.Type, facts *[]*Term) *Term {
	c := tm.c
	switch u := ty.Underlying().(type) {
	case *types.Slice:
		b := c.Fresh(hint+".base", "Int")
		o := c.Fresh(hint+".off", "Int")
		l := c.Fresh(hint+".len", "Int")
		k := c.Fresh(hint+".cap", "Int")
		t := tm.MkSlice(b, o, l, k)
		*facts = append(*facts, tm.RangeFact(t, ty))
		return t
	case *types.Struct:
		si := tm.Struct(ty)
		args := make([]*Term, len(si.fields))
		for i, f := range si.fields {
			args[i] = tm.FreshTyped(hint+"."+f.name, f.typ, facts)
		}
		return c.App(si.ctor, si.sort, args...)
	default:
		_ = u
		t := c.Fresh(hint, tm.Sort(ty))
		*facts = append(*facts, tm.RangeFact(t, ty))
		return t
	}
}
