package main

// Term layer: hash-consed SMT-LIB terms with light simplification, named
// definitions (define-fun) to keep query text linear, and ground "facts"
// attached to terms (range typing of heap reads, injectivity of sub-object
// refs) that are emitted only when the term is reachable from a query.

import (
	"fmt"
	"math/big"
	"sort"
	"strings"
)

type Term struct {
	id    int
	op    string // SMT operator / symbol; "" for literal
	name  string // for kind var/def/lit: printed text
	kind  int
	args  []*Term
	sort  string
	def   *Term // for kDef
	bound bool  // mentions a quantifier-bound variable
	size  int
	bvars []*Term // for quantifiers
}

const (
	kLit = iota
	kVar // declared constant
	kDef // named definition
	kApp
	kBound
	kQuant
)

type TermCtx struct {
	tab     map[string]*Term
	n       int
	facts   map[int][]*Term // term id -> facts to include when reachable
	decls   map[string]string
	funs    map[string]string // name -> full declare-fun / define-fun text
	funDeps map[string][]string
	dtypes  []string // datatype declarations, in order
	dtSeen  map[string]bool
	fresh   map[string]int
	floatRe bool
}

func NewTermCtx() *TermCtx {
	return &TermCtx{tab: map[string]*Term{}, facts: map[int][]*Term{}, decls: map[string]string{}, funs: map[string]string{}, funDeps: map[string][]string{}, dtSeen: map[string]bool{}, fresh: map[string]int{}}
}

func (c *TermCtx) intern(t *Term) *Term {
	var sb strings.Builder
	fmt.Fprintf(&sb, "%d|%s|%s|%s", t.kind, t.op, t.name, t.sort)
	for _, a := range t.args {
		fmt.Fprintf(&sb, "|%d", a.id)
	}
	for _, a := range t.bvars {
		fmt.Fprintf(&sb, "|b%d", a.id)
	}
	k := sb.String()
	if o, ok := c.tab[k]; ok {
		return o
	}
	c.n++
	t.id = c.n
	t.size = 1
	for _, a := range t.args {
		t.size += a.size
		if a.bound {
			t.bound = true
		}
	}
	if t.size > 1<<20 {
		t.size = 1 << 20
	}
	c.tab[k] = t
	return t
}

func (c *TermCtx) Lit(text, sort string) *Term {
	return c.intern(&Term{kind: kLit, name: text, sort: sort})
}
func (c *TermCtx) Int(v int64) *Term { return c.BigInt(big.NewInt(v)) }
func (c *TermCtx) BigInt(v *big.Int) *Term {
	if v.Sign() < 0 {
		return c.Lit("(- "+new(big.Int).Neg(v).String()+")", "Int")
	}
	return c.Lit(v.String(), "Int")
}
func (c *TermCtx) Bool(b bool) *Term {
	if b {
		return c.Lit("true", "Bool")
	}
	return c.Lit("false", "Bool")
}
func (c *TermCtx) True() *Term  { return c.Bool(true) }
func (c *TermCtx) False() *Term { return c.Bool(false) }

func litInt(t *Term) (*big.Int, bool) {
	if t.kind != kLit || t.sort != "Int" {
		return nil, false
	}
	s := t.name
	neg := false
	if strings.HasPrefix(s, "(- ") {
		neg = true
		s = s[3 : len(s)-1]
	}
	v, ok := new(big.Int).SetString(s, 10)
	if !ok {
		return nil, false
	}
	if neg {
		v.Neg(v)
	}
	return v, true
}

func sanitize(s string) string {
	var sb strings.Builder
	for _, r := range s {
		switch {
		case r >= 'a' && r <= 'z', r >= 'A' && r <= 'Z', r >= '0' && r <= '9', r == '_', r == '.':
			sb.WriteRune(r)
		case r == '*':
			sb.WriteString("p.")
		case r == '[' || r == ']':
			sb.WriteString("..")
		default:
			sb.WriteRune('_')
		}
	}
	return sb.String()
}

// Fresh declares a new constant.
func (c *TermCtx) Fresh(hint, sort string) *Term {
	hint = sanitize(hint)
	c.fresh[hint]++
	name := fmt.Sprintf("%s!%d", hint, c.fresh[hint])
	c.decls[name] = sort
	return c.intern(&Term{kind: kVar, name: name, sort: sort})
}

// Const returns the (unique) declared constant of that name.
func (c *TermCtx) Const(name, sort string) *Term {
	name = sanitize(name)
	if s, ok := c.decls[name]; ok && s != sort {
		panic("const redeclared with different sort: " + name)
	}
	c.decls[name] = sort
	return c.intern(&Term{kind: kVar, name: name, sort: sort})
}

func (c *TermCtx) BoundVar(hint, sort string) *Term {
	hint = sanitize(hint)
	c.fresh[hint]++
	t := c.intern(&Term{kind: kBound, name: fmt.Sprintf("%s?%d", hint, c.fresh[hint]), sort: sort})
	t.bound = true
	return t
}

// BoundVarNamed returns the bound variable with exactly this name: the same quantifier body evaluated
// twice over the same state then yields the identical term.
func (c *TermCtx) BoundVarNamed(name, sort string) *Term {
	t := c.intern(&Term{kind: kBound, name: sanitize(name) + "?", sort: sort})
	t.bound = true
	return t
}

// Name introduces a define-fun alias for a closed, non-trivial term.
func (c *TermCtx) Name(t *Term, hint string) *Term {
	if t.bound || t.size <= 6 || t.kind != kApp && t.kind != kQuant {
		return t
	}
	hint = sanitize(hint)
	c.fresh[hint]++
	d := c.intern(&Term{kind: kDef, name: fmt.Sprintf("%s!%d", hint, c.fresh[hint]), sort: t.sort, def: t})
	d.size = 1
	return d
}

func strip(t *Term) *Term {
	for t.kind == kDef {
		t = t.def
	}
	return t
}

func (c *TermCtx) AddFact(t *Term, fact *Term) {
	if fact.bound || (fact.kind == kLit && fact.name == "true") {
		return
	}
	for _, f := range c.facts[t.id] {
		if f == fact {
			return
		}
	}
	c.facts[t.id] = append(c.facts[t.id], fact)
}

// DeclareFun registers an uninterpreted function or a macro; text is the full
// SMT-LIB command. deps are other function names used by it.
func (c *TermCtx) DeclareFun(name, text string, deps ...string) {
	if _, ok := c.funs[name]; !ok {
		c.funs[name] = text
		c.funDeps[name] = deps
	}
}

func (c *TermCtx) DeclareDatatype(sortName, text string) {
	if !c.dtSeen[sortName] {
		c.dtSeen[sortName] = true
		c.dtypes = append(c.dtypes, text)
	}
}

func isTrue(t *Term) bool  { t = strip(t); return t.kind == kLit && t.name == "true" }
func isFalse(t *Term) bool { t = strip(t); return t.kind == kLit && t.name == "false" }

func (c *TermCtx) App(op, sort string, args ...*Term) *Term {
	for _, a := range args {
		if a == nil {
			panic("nil arg to " + op)
		}
	}
	return c.intern(&Term{kind: kApp, op: op, sort: sort, args: args})
}

func (c *TermCtx) Not(a *Term) *Term {
	if isTrue(a) {
		return c.False()
	}
	if isFalse(a) {
		return c.True()
	}
	if a.kind == kApp && a.op == "not" {
		return a.args[0]
	}
	return c.App("not", "Bool", a)
}

func (c *TermCtx) And(as ...*Term) *Term {
	var out []*Term
	seen := map[int]bool{}
	for _, a := range as {
		if isTrue(a) {
			continue
		}
		if isFalse(a) {
			return c.False()
		}
		if a.kind == kApp && a.op == "and" {
			for _, b := range a.args {
				if !seen[b.id] {
					seen[b.id] = true
					out = append(out, b)
				}
			}
			continue
		}
		if !seen[a.id] {
			seen[a.id] = true
			out = append(out, a)
		}
	}
	if len(out) == 0 {
		return c.True()
	}
	if len(out) == 1 {
		return out[0]
	}
	return c.App("and", "Bool", out...)
}

func (c *TermCtx) Or(as ...*Term) *Term {
	var out []*Term
	seen := map[int]bool{}
	for _, a := range as {
		if isFalse(a) {
			continue
		}
		if isTrue(a) {
			return c.True()
		}
		if a.kind == kApp && a.op == "or" {
			for _, b := range a.args {
				if !seen[b.id] {
					seen[b.id] = true
					out = append(out, b)
				}
			}
			continue
		}
		if !seen[a.id] {
			seen[a.id] = true
			out = append(out, a)
		}
	}
	if len(out) == 0 {
		return c.False()
	}
	if len(out) == 1 {
		return out[0]
	}
	return c.App("or", "Bool", out...)
}

func (c *TermCtx) Implies(a, b *Term) *Term {
	if isTrue(a) {
		return b
	}
	if isFalse(a) || isTrue(b) {
		return c.True()
	}
	if isFalse(b) {
		return c.Not(a)
	}
	return c.App("=>", "Bool", a, b)
}

func (c *TermCtx) Eq(a, b *Term) *Term {
	if a == b {
		return c.True()
	}
	if a.sort != b.sort {
		panic(fmt.Sprintf("Eq sort mismatch %s vs %s (%s, %s)", a.sort, b.sort, c.Show(a), c.Show(b)))
	}
	if a.kind == kLit && b.kind == kLit {
		return c.Bool(a.name == b.name)
	}
	if a.sort == "Bool" {
		if isTrue(b) {
			return a
		}
		if isTrue(a) {
			return b
		}
		if isFalse(b) {
			return c.Not(a)
		}
		if isFalse(a) {
			return c.Not(b)
		}
	}
	if isFPSort(a.sort) {
		// Go == on floats is IEEE equality; structural identity is requested explicitly via SameBits
		return c.App("fp.eq", "Bool", a, b)
	}
	if a.id > b.id {
		a, b = b, a
	}
	return c.App("=", "Bool", a, b)
}

// Same is logical identity (also for floats).
func (c *TermCtx) Same(a, b *Term) *Term {
	if a == b {
		return c.True()
	}
	if !isFPSort(a.sort) {
		return c.Eq(a, b)
	}
	return c.App("=", "Bool", a, b)
}

func isFPSort(s string) bool { return strings.HasPrefix(s, "(_ FloatingPoint") }

func (c *TermCtx) Ite(cond, a, b *Term) *Term {
	if isTrue(cond) {
		return a
	}
	if isFalse(cond) {
		return b
	}
	if a == b {
		return a
	}
	if a.sort != b.sort {
		panic(fmt.Sprintf("Ite sort mismatch %s vs %s", a.sort, b.sort))
	}
	if a.sort == "Bool" {
		if isTrue(a) && isFalse(b) {
			return cond
		}
		if isFalse(a) && isTrue(b) {
			return c.Not(cond)
		}
		if isTrue(a) {
			return c.Or(cond, b)
		}
		if isFalse(b) {
			return c.And(cond, a)
		}
		if isFalse(a) {
			return c.And(c.Not(cond), b)
		}
		if isTrue(b) {
			return c.Or(c.Not(cond), a)
		}
	}
	// push ite through identical constructors
	if a.kind == kApp && b.kind == kApp && a.op == b.op && strings.HasPrefix(a.op, "mk-") && len(a.args) == len(b.args) {
		args := make([]*Term, len(a.args))
		for i := range a.args {
			args[i] = c.Ite(cond, a.args[i], b.args[i])
		}
		return c.App(a.op, a.sort, args...)
	}
	return c.App("ite", a.sort, cond, a, b)
}

func (c *TermCtx) arith(op string, a, b *Term) *Term {
	x, ok1 := litInt(a)
	y, ok2 := litInt(b)
	if ok1 && ok2 {
		r := new(big.Int)
		switch op {
		case "+":
			return c.BigInt(r.Add(x, y))
		case "-":
			return c.BigInt(r.Sub(x, y))
		case "*":
			return c.BigInt(r.Mul(x, y))
		}
	}
	switch op {
	case "+":
		if ok1 && x.Sign() == 0 {
			return b
		}
		if ok2 && y.Sign() == 0 {
			return a
		}
	case "-":
		if ok2 && y.Sign() == 0 {
			return a
		}
		if a == b {
			return c.Int(0)
		}
	case "*":
		if ok1 && x.IsInt64() && x.Int64() == 1 {
			return b
		}
		if ok2 && y.IsInt64() && y.Int64() == 1 {
			return a
		}
		if (ok1 && x.Sign() == 0) || (ok2 && y.Sign() == 0) {
			return c.Int(0)
		}
	}
	return c.App(op, "Int", a, b)
}
func (c *TermCtx) Add(a, b *Term) *Term { return c.arith("+", a, b) }
func (c *TermCtx) Sub(a, b *Term) *Term { return c.arith("-", a, b) }
func (c *TermCtx) Mul(a, b *Term) *Term { return c.arith("*", a, b) }

func (c *TermCtx) cmp(op string, a, b *Term) *Term {
	x, ok1 := litInt(a)
	y, ok2 := litInt(b)
	if ok1 && ok2 {
		k := x.Cmp(y)
		switch op {
		case "<":
			return c.Bool(k < 0)
		case "<=":
			return c.Bool(k <= 0)
		case ">":
			return c.Bool(k > 0)
		case ">=":
			return c.Bool(k >= 0)
		}
	}
	if a == b {
		return c.Bool(op == "<=" || op == ">=")
	}
	return c.App(op, "Bool", a, b)
}
func (c *TermCtx) Lt(a, b *Term) *Term { return c.cmp("<", a, b) }
func (c *TermCtx) Le(a, b *Term) *Term { return c.cmp("<=", a, b) }
func (c *TermCtx) Gt(a, b *Term) *Term { return c.cmp(">", a, b) }
func (c *TermCtx) Ge(a, b *Term) *Term { return c.cmp(">=", a, b) }

// floor division / modulo by a positive literal or general (SMT div/mod are Euclidean)
func (c *TermCtx) Div(a, b *Term) *Term {
	x, ok1 := litInt(a)
	y, ok2 := litInt(b)
	if ok1 && ok2 && y.Sign() > 0 {
		q := new(big.Int)
		m := new(big.Int)
		q.DivMod(x, y, m)
		return c.BigInt(q)
	}
	if ok2 && y.IsInt64() && y.Int64() == 1 {
		return a
	}
	return c.App("div", "Int", a, b)
}
func (c *TermCtx) Mod(a, b *Term) *Term {
	x, ok1 := litInt(a)
	y, ok2 := litInt(b)
	if ok1 && ok2 && y.Sign() > 0 {
		q := new(big.Int)
		m := new(big.Int)
		q.DivMod(x, y, m)
		return c.BigInt(m)
	}
	return c.App("mod", "Int", a, b)
}

func arrSort(idx, elem string) string { return "(Array " + idx + " " + elem + ")" }

// arrayElemSort parses "(Array I E)" and returns I, E.
func arrayParts(s string) (string, string) {
	if !strings.HasPrefix(s, "(Array ") {
		panic("not an array sort: " + s)
	}
	body := s[len("(Array ") : len(s)-1]
	// split at top-level space
	depth := 0
	for i, r := range body {
		switch r {
		case '(':
			depth++
		case ')':
			depth--
		case ' ':
			if depth == 0 {
				return body[:i], body[i+1:]
			}
		}
	}
	panic("bad array sort: " + s)
}

func (c *TermCtx) Select(arr, idx *Term) *Term {
	_, es := arrayParts(arr.sort)
	a := arr
	// read-over-write with syntactically equal / literal-distinct indices
	for {
		s := strip(a)
		if s.kind == kApp && s.op == "store" {
			if s.args[1] == idx {
				return s.args[2]
			}
			if s.args[1].kind == kLit && idx.kind == kLit {
				a = s.args[0]
				continue
			}
		}
		break
	}
	return c.App("select", es, a, idx)
}

func (c *TermCtx) Store(arr, idx, val *Term) *Term {
	_, es := arrayParts(arr.sort)
	if val.sort != es {
		panic(fmt.Sprintf("Store sort mismatch: array %s, value %s", arr.sort, val.sort))
	}
	s := strip(arr)
	if s.kind == kApp && s.op == "store" && s.args[1] == idx {
		arr = s.args[0]
	}
	return c.App("store", arr.sort, arr, idx, val)
}

// Sel applies a datatype selector, simplifying sel(mk(...)).
func (c *TermCtx) Sel(selName, sort string, idx int, ctor string, t *Term) *Term {
	s := strip(t)
	if s.kind == kApp && s.op == ctor {
		return s.args[idx]
	}
	if s.kind == kApp && s.op == "ite" {
		return c.Ite(s.args[0], c.Sel(selName, sort, idx, ctor, s.args[1]), c.Sel(selName, sort, idx, ctor, s.args[2]))
	}
	return c.App(selName, sort, t)
}

func (c *TermCtx) Forall(vars []*Term, body *Term) *Term {
	if isTrue(body) {
		return body
	}
	t := c.intern(&Term{kind: kQuant, op: "forall", sort: "Bool", args: []*Term{body}, bvars: vars})
	t.bound = c.hasFreeBound(t)
	return t
}
// ForallPat is Forall with an explicit instantiation pattern (keeps E-matching from looping on
// background axioms).
func (c *TermCtx) ForallPat(vars []*Term, body, pat *Term) *Term {
	if isTrue(body) {
		return body
	}
	if !patternOK(pat, map[int]bool{}) {
		return c.Forall(vars, body)
	}
	t := c.intern(&Term{kind: kQuant, op: "forall", sort: "Bool", args: []*Term{body, pat}, bvars: vars})
	t.bound = c.hasFreeBound(t)
	return t
}

// patternOK: solvers reject patterns that contain Boolean structure (also after macro expansion).
func patternOK(t *Term, seen map[int]bool) bool {
	if seen[t.id] {
		return true
	}
	seen[t.id] = true
	if t.kind == kDef {
		return patternOK(t.def, seen)
	}
	if t.sort == "Bool" || t.kind == kQuant {
		return false
	}
	for _, a := range t.args {
		if !patternOK(a, seen) {
			return false
		}
	}
	return true
}

func (c *TermCtx) Exists(vars []*Term, body *Term) *Term {
	if isFalse(body) {
		return body
	}
	t := c.intern(&Term{kind: kQuant, op: "exists", sort: "Bool", args: []*Term{body}, bvars: vars})
	t.bound = c.hasFreeBound(t)
	return t
}

func (c *TermCtx) hasFreeBound(t *Term) bool {
	bound := map[int]bool{}
	var walk func(t *Term) bool
	seen := map[int]bool{}
	walk = func(t *Term) bool {
		if !t.bound && t.kind != kQuant {
			return false
		}
		if t.kind == kBound {
			return !bound[t.id]
		}
		if t.kind == kQuant {
			for _, v := range t.bvars {
				bound[v.id] = true
			}
			r := walk(t.args[0])
			return r
		}
		if seen[t.id] {
			return false
		}
		seen[t.id] = true
		for _, a := range t.args {
			if walk(a) {
				return true
			}
		}
		return false
	}
	return walk(t)
}

// ---------- printing ----------

type tprinter struct {
	c       *TermCtx
	sb      strings.Builder
	defs    []*Term
	defSeen map[int]bool
	vars    map[string]string
	funs    map[string]bool
	funOrd  []string
	visited map[int]bool
	facts   []*Term
	factSet map[int]bool
	letName map[int]string
}

func (p *tprinter) collect(t *Term) {
	if p.visited[t.id] {
		return
	}
	p.visited[t.id] = true
	for _, f := range p.c.facts[t.id] {
		if !p.factSet[f.id] {
			p.factSet[f.id] = true
			p.facts = append(p.facts, f)
			p.collect(f)
		}
	}
	switch t.kind {
	case kVar:
		p.vars[t.name] = t.sort
	case kDef:
		p.collect(t.def)
		if !p.defSeen[t.id] {
			p.defSeen[t.id] = true
			p.defs = append(p.defs, t)
		}
	case kApp, kQuant:
		if t.kind == kApp && !strings.HasPrefix(t.op, "hint.") {
			p.needFun(t.op)
		}
		for _, a := range t.args {
			p.collect(a)
		}
	}
}

func (p *tprinter) needFun(name string) {
	if _, ok := p.c.funs[name]; ok && !p.funs[name] {
		p.funs[name] = true
		for _, d := range p.c.funDeps[name] {
			p.needFun(d)
		}
		p.funOrd = append(p.funOrd, name)
	}
}

func (p *tprinter) str(t *Term) string {
	var sb strings.Builder
	p.write(&sb, t)
	return sb.String()
}

func quoteSym(s string) string {
	if strings.ContainsAny(s, "!?") || strings.Contains(s, "..") {
		return "|" + s + "|"
	}
	return s
}

func (p *tprinter) write(sb *strings.Builder, t *Term) {
	if n := p.letName[t.id]; n != "" {
		sb.WriteString(n)
		return
	}
	switch t.kind {
	case kLit:
		sb.WriteString(t.name)
	case kVar, kDef, kBound:
		sb.WriteString(quoteSym(t.name))
	case kApp:
		if len(t.args) == 0 {
			sb.WriteString(t.op)
			return
		}
		if t.op == "*" && len(t.args) == 2 && strip(t.args[0]).kind != kLit && strip(t.args[1]).kind != kLit {
			// non-linear product: marked so that the solver runner can also try it as an uninterpreted function
			a, b := t.args[0], t.args[1]
			if a.id > b.id {
				a, b = b, a
			}
			if t.sort == "Real" {
				sb.WriteString("(@NLMULR@ ")
			} else {
				sb.WriteString("(@NLMULI@ ")
			}
			p.write(sb, a)
			sb.WriteByte(' ')
			p.write(sb, b)
			sb.WriteByte(')')
			return
		}
		sb.WriteByte('(')
		sb.WriteString(strings.TrimPrefix(t.op, "hint."))
		for _, a := range t.args {
			sb.WriteByte(' ')
			p.write(sb, a)
		}
		sb.WriteByte(')')
	case kQuant:
		sb.WriteByte('(')
		sb.WriteString(t.op)
		sb.WriteString(" (")
		for _, v := range t.bvars {
			fmt.Fprintf(sb, "(%s %s)", quoteSym(v.name), v.sort)
		}
		sb.WriteString(") ")
		if len(t.args) == 2 {
			sb.WriteString("(! ")
			p.writeRoot(sb, t.args[0])
			sb.WriteString(" :pattern (")
			p.write(sb, t.args[1])
			sb.WriteString("))")
		} else {
			p.writeRoot(sb, t.args[0])
		}
		sb.WriteByte(')')
	}
}

// writeRoot prints t with let-bindings for the anonymous sub-terms it shares (the term layer is a DAG; printing it
// as a tree can be exponentially larger). Quantifier bodies are roots of their own, so a binding never escapes the
// scope of a bound variable it mentions.
func (p *tprinter) writeRoot(sb *strings.Builder, t *Term) {
	refs := map[int]int{}
	var order []*Term
	var count func(x *Term)
	count = func(x *Term) {
		if x.kind != kApp && x.kind != kQuant || len(x.args) == 0 {
			return
		}
		refs[x.id]++
		if refs[x.id] > 1 {
			return
		}
		if x.kind == kApp {
			for _, a := range x.args {
				count(a)
			}
		}
		order = append(order, x)
	}
	count(t)
	var shared []*Term
	for _, x := range order {
		if refs[x.id] > 1 && x.size >= 10 && x != t && p.letName[x.id] == "" {
			shared = append(shared, x)
		}
	}
	if len(shared) == 0 {
		p.write(sb, t)
		return
	}
	if p.letName == nil {
		p.letName = map[int]string{}
	}
	for _, x := range shared {
		fmt.Fprintf(sb, "(let ((l$%d ", x.id)
		p.write(sb, x)
		sb.WriteString(")) ")
		p.letName[x.id] = fmt.Sprintf("l$%d", x.id)
	}
	p.write(sb, t)
	for _, x := range shared {
		sb.WriteByte(')')
		delete(p.letName, x.id)
	}
}

// Show prints a term for diagnostics with definitions expanded one level.
func (c *TermCtx) Show(t *Term) string {
	p := &tprinter{c: c}
	return p.str(t)
}

// Query renders a complete SMT-LIB script asserting every term in asserts.
func (c *TermCtx) Query(asserts []*Term, wantModel bool, modelTerms []*Term) string {
	p := &tprinter{c: c, defSeen: map[int]bool{}, vars: map[string]string{}, funs: map[string]bool{}, visited: map[int]bool{}, factSet: map[int]bool{}}
	for _, a := range asserts {
		p.collect(a)
	}
	for _, m := range modelTerms {
		p.collect(m)
	}
	var sb strings.Builder
	if wantModel {
		sb.WriteString("(set-option :produce-models true)\n")
	}
	sb.WriteString("(set-logic ALL)\n")
	for _, d := range c.dtypes {
		sb.WriteString(d)
		sb.WriteByte('\n')
	}
	names := make([]string, 0, len(p.vars))
	for n := range p.vars {
		names = append(names, n)
	}
	sort.Strings(names)
	for _, n := range names {
		fmt.Fprintf(&sb, "(declare-fun %s () %s)\n", quoteSym(n), p.vars[n])
	}
	for _, n := range p.funOrd {
		sb.WriteString(c.funs[n])
		sb.WriteByte('\n')
	}
	sort.Slice(p.defs, func(i, j int) bool { return p.defs[i].id < p.defs[j].id })
	for _, d := range p.defs {
		fmt.Fprintf(&sb, "(define-fun %s () %s ", quoteSym(d.name), d.sort)
		p.writeRoot(&sb, d.def)
		sb.WriteString(")\n")
	}
	for _, f := range p.facts {
		sb.WriteString("(assert ")
		p.writeRoot(&sb, f)
		sb.WriteString(")\n")
	}
	for _, a := range asserts {
		sb.WriteString("(assert ")
		p.writeRoot(&sb, a)
		sb.WriteString(")\n")
	}
	sb.WriteString("(check-sat)\n")
	if wantModel {
		if len(modelTerms) > 0 {
			sb.WriteString("(get-value (")
			for _, m := range modelTerms {
				p.write(&sb, m)
				sb.WriteByte(' ')
			}
			sb.WriteString("))\n")
		}
	}
	// "str.*" are theory symbols in cvc5; ours are uninterpreted
	return strings.ReplaceAll(sb.String(), "str.", "gostr.")
}

// Subst replaces every occurrence of term from by to (used for case-split proof hints), rebuilding
// through the simplifying constructors so that arithmetic with the literal folds.
func (c *TermCtx) Subst(t, from, to *Term, memo map[int]*Term) *Term {
	if t == from {
		return to
	}
	if r, ok := memo[t.id]; ok {
		return r
	}
	var r *Term
	switch t.kind {
	case kLit, kVar, kBound:
		r = t
	case kDef:
		nd := c.Subst(t.def, from, to, memo)
		if nd == t.def {
			r = t
		} else {
			r = c.Name(nd, strings.SplitN(t.name, "!", 2)[0])
		}
	case kQuant:
		nb := c.Subst(t.args[0], from, to, memo)
		if nb == t.args[0] {
			r = t
		} else if t.op == "forall" {
			r = c.Forall(t.bvars, nb)
		} else {
			r = c.Exists(t.bvars, nb)
		}
	case kApp:
		changed := false
		args := make([]*Term, len(t.args))
		for i, a := range t.args {
			args[i] = c.Subst(a, from, to, memo)
			if args[i] != a {
				changed = true
			}
		}
		if !changed {
			r = t
		} else {
			r = c.rebuild(t.op, t.sort, args)
		}
	}
	memo[t.id] = r
	if r != t {
		for _, f := range c.facts[t.id] {
			c.AddFact(r, c.Subst(f, from, to, memo))
		}
	}
	return r
}

func (c *TermCtx) rebuild(op, sort string, args []*Term) *Term {
	switch op {
	case "and":
		return c.And(args...)
	case "or":
		return c.Or(args...)
	case "not":
		return c.Not(args[0])
	case "=>":
		return c.Implies(args[0], args[1])
	case "=":
		if args[0].sort == args[1].sort && !isFPSort(args[0].sort) {
			return c.Eq(args[0], args[1])
		}
	case "ite":
		return c.Ite(args[0], args[1], args[2])
	case "+":
		if len(args) == 2 && sort == "Int" {
			return c.Add(args[0], args[1])
		}
	case "-":
		if len(args) == 2 && sort == "Int" {
			return c.Sub(args[0], args[1])
		}
	case "*":
		if len(args) == 2 && sort == "Int" {
			return c.Mul(args[0], args[1])
		}
	case "<":
		if args[0].sort == "Int" {
			return c.Lt(args[0], args[1])
		}
	case "<=":
		if args[0].sort == "Int" {
			return c.Le(args[0], args[1])
		}
	case ">":
		if args[0].sort == "Int" {
			return c.Gt(args[0], args[1])
		}
	case ">=":
		if args[0].sort == "Int" {
			return c.Ge(args[0], args[1])
		}
	case "div":
		return c.Div(args[0], args[1])
	case "mod":
		return c.Mod(args[0], args[1])
	case "select":
		return c.Select(args[0], args[1])
	case "store":
		return c.Store(args[0], args[1], args[2])
	}
	return c.App(op, sort, args...)
}


// Polarize drops solver hints where they are a burden: "hint.and" (a universal statement with some of its instances)
// keeps its instances only where it is assumed, "hint.or" (an existential with candidate witnesses) keeps its
// candidates only where it is to be proved. t is a formula asserted to the solver; pos tells whether the position is
// positive (assumed) or negative (to be refuted, i.e. proved).
func (c *TermCtx) Polarize(t *Term, pos bool, memo map[[2]int]*Term) *Term {
	if t.sort != "Bool" || t.kind == kLit || t.kind == kVar || t.kind == kBound {
		return t
	}
	k := [2]int{t.id, 0}
	if pos {
		k[1] = 1
	}
	if r, ok := memo[k]; ok {
		return r
	}
	r := t
	switch {
	case t.kind == kApp && (t.op == "hint.and" || t.op == "hint.or"):
		keep := pos == (t.op == "hint.and")
		if !keep {
			r = c.Polarize(t.args[0], pos, memo)
		} else {
			as := make([]*Term, len(t.args))
			for i, a := range t.args {
				as[i] = c.Polarize(a, pos, memo)
			}
			if t.op == "hint.and" {
				r = c.And(as...)
			} else {
				r = c.Or(as...)
			}
		}
	case t.kind == kApp && (t.op == "and" || t.op == "or"):
		as := make([]*Term, len(t.args))
		ch := false
		for i, a := range t.args {
			as[i] = c.Polarize(a, pos, memo)
			ch = ch || as[i] != a
		}
		if ch {
			if t.op == "and" {
				r = c.And(as...)
			} else {
				r = c.Or(as...)
			}
		}
	case t.kind == kApp && t.op == "ite" && len(t.args) == 3:
		a, b := c.Polarize(t.args[1], pos, memo), c.Polarize(t.args[2], pos, memo)
		if a != t.args[1] || b != t.args[2] {
			r = c.Ite(t.args[0], a, b)
		}
	case t.kind == kApp && t.op == "not":
		a := c.Polarize(t.args[0], !pos, memo)
		if a != t.args[0] {
			r = c.Not(a)
		}
	case t.kind == kApp && t.op == "=>":
		a, b := c.Polarize(t.args[0], !pos, memo), c.Polarize(t.args[1], pos, memo)
		if a != t.args[0] || b != t.args[1] {
			r = c.Implies(a, b)
		}
	case t.kind == kQuant && !t.bound && ((t.op == "forall" && !pos) || (t.op == "exists" && pos)):
		// a universal statement to be proved, or an existential one that is assumed: name the witnesses
		// (skolem constants), so that instance generation and the solvers see ground terms
		b := t.args[0]
		for _, v := range t.bvars {
			c.fresh["sk"]++
			k := c.intern(&Term{kind: kVar, name: fmt.Sprintf("sk!%s!%d", strings.TrimSuffix(v.name, "?"), c.fresh["sk"]), sort: v.sort})
			b = c.Subst(b, v, k, map[int]*Term{})
		}
		r = c.Polarize(b, pos, memo)
		if t.op == "forall" {
			// keep the quantified form as an alternative: it closes at once against an identical assumption
			r = c.Or(t, r)
		}
	case t.kind == kQuant:
		b := c.Polarize(t.args[0], pos, memo)
		if b != t.args[0] {
			args := append([]*Term{b}, t.args[1:]...)
			nt := c.intern(&Term{kind: kQuant, op: t.op, sort: "Bool", args: args, bvars: t.bvars})
			nt.bound = c.hasFreeBound(nt)
			r = nt
		}
	case t.kind == kDef && t.def != nil:
		nd := c.Polarize(t.def, pos, memo)
		if nd != t.def {
			r = c.Name(nd, strings.SplitN(t.name, "!", 2)[0])
		}
	}
	memo[k] = r
	return r
}


// AbstractForalls replaces every universally quantified sub-formula by a fresh Boolean constant (the same constant for
// the same formula). The result is satisfiable whenever t is, so a reachability (cover) query never reports a dead
// path because of it; solvers answer "unknown" far less often without the quantifiers. Instances added as hints stay.
func (c *TermCtx) AbstractForalls(t *Term) *Term {
	var qs []*Term
	seen := map[int]bool{}
	var walk func(x *Term)
	walk = func(x *Term) {
		if seen[x.id] {
			return
		}
		seen[x.id] = true
		if x.kind == kQuant && x.op == "forall" && !x.bound {
			qs = append(qs, x)
			return
		}
		if x.kind == kDef && x.def != nil {
			walk(x.def)
		}
		for _, a := range x.args {
			walk(a)
		}
	}
	walk(t)
	for _, q := range qs {
		v := c.intern(&Term{kind: kVar, name: fmt.Sprintf("q$%d", q.id), sort: "Bool"})
		t = c.Subst(t, q, v, map[int]*Term{})
	}
	return t
}
