package main

// Solver portfolio: z3 5.1.0 (z3-new), z3 4.8.12, cvc5 1.0 raced per query.

import (
	"bytes"
	"context"
	"os/exec"
	"strings"
	"time"
)

type Solvers struct {
	Timeout  time.Duration
	Parallel int
	Seed     int
	All      bool // run every solver to completion and cross-check
	Disagree []string
}

type SolveResult struct {
	Verdict string // sat | unsat | unknown
	Solver  string
	Output  string
	Model   map[string]string
}

type solverDef struct {
	name string
	argv []string
}

func (s *Solvers) defs() []solverDef {
	secs := int(s.Timeout.Seconds())
	if secs < 1 {
		secs = 1
	}
	d := []solverDef{
		{"z3-5.1.0", []string{"z3-new", "-in", "-T:" + itoa(secs)}},
		{"z3-4.8.12", []string{"/usr/bin/z3", "-in", "-T:" + itoa(secs)}},
		{"cvc5-1.0", []string{"cvc5", "--lang", "smt2", "--tlimit=" + itoa(secs*1000)}},
	}
	if s.Seed != 0 {
		d[0].argv = append(d[0].argv, "smt.random_seed="+itoa(s.Seed), "sat.random_seed="+itoa(s.Seed))
		d[1].argv = append(d[1].argv, "smt.random_seed="+itoa(s.Seed), "sat.random_seed="+itoa(s.Seed))
		d[2].argv = append(d[2].argv, "--seed="+itoa(s.Seed))
	}
	return d
}

func itoa(i int) string {
	if i == 0 {
		return "0"
	}
	neg := i < 0
	if neg {
		i = -i
	}
	var b []byte
	for i > 0 {
		b = append([]byte{byte('0' + i%10)}, b...)
		i /= 10
	}
	if neg {
		b = append([]byte{'-'}, b...)
	}
	return string(b)
}

func runOne(ctx context.Context, d solverDef, query string) SolveResult {
	cmd := exec.CommandContext(ctx, d.argv[0], d.argv[1:]...)
	cmd.Stdin = strings.NewReader(query)
	var out bytes.Buffer
	cmd.Stdout = &out
	cmd.Stderr = &out
	_ = cmd.Run()
	text := out.String()
	// warnings precede the verdict
	for strings.HasPrefix(text, "WARNING") {
		i := strings.Index(text, "\n")
		if i < 0 {
			break
		}
		text = text[i+1:]
	}
	first := strings.TrimSpace(strings.SplitN(text, "\n", 2)[0])
	r := SolveResult{Solver: d.name, Output: text, Verdict: "unknown"}
	if strings.HasPrefix(first, "(error") {
		r.Output = "SOLVER-ERROR " + text
		return r
	}
	switch first {
	case "sat":
		r.Verdict = "sat"
		r.Model = parseValues(text)
	case "unsat":
		r.Verdict = "unsat"
	}
	return r
}

// Run races the solvers; for covers a "sat" is wanted, otherwise "unsat"; any definite answer ends the race.
func (s *Solvers) Run(query string, cover bool) SolveResult {
	ctx, cancel := context.WithTimeout(context.Background(), s.Timeout+2*time.Second)
	defer cancel()
	defs := s.defs()
	// exact query: non-linear products as multiplication
	q := strings.ReplaceAll(strings.ReplaceAll(query, "@NLMULR@", "*"), "@NLMULI@", "*")
	nl := strings.Contains(query, "@NLMUL") && !cover
	if nl {
		// extra portfolio member: products of two non-literals as an uninterpreted function. Valid there implies
		// valid here (only "unsat" is accepted from it).
		defs = append(defs, solverDef{"z3-5.1.0/uf-mul", defs[0].argv})
	}
	ch := make(chan SolveResult, len(defs))
	for _, d := range defs {
		go func(d solverDef) {
			qq := q
			if strings.HasSuffix(d.name, "/uf-mul") {
				qq = strings.ReplaceAll(strings.ReplaceAll(query, "@NLMULR@", "umul.R"), "@NLMULI@", "umul.I")
				qq = strings.Replace(qq, "(set-logic ALL)\n", "(set-logic ALL)\n(declare-fun umul.R (Real Real) Real)\n(declare-fun umul.I (Int Int) Int)\n", 1)
				r := runOne(ctx, d, qq)
				if r.Verdict != "unsat" {
					r.Verdict = "unknown"
				}
				ch <- r
				return
			}
			ch <- runOne(ctx, d, qq)
		}(d)
	}
	var results []SolveResult
	var best *SolveResult
	var grace <-chan time.Time
loop:
	for range defs {
		select {
		case r := <-ch:
			results = append(results, r)
			if r.Verdict != "unknown" && best == nil {
				rr := r
				best = &rr
				if !s.All {
					cancel()
					break loop
				}
				// cross-check mode: give the other solvers a short grace period to agree or disagree
				grace = time.After(3 * time.Second)
			}
		case <-grace:
			cancel()
			break loop
		}
	}
	if s.All {
		v := ""
		for _, r := range results {
			if r.Verdict == "unknown" {
				continue
			}
			if v == "" {
				v = r.Verdict
			} else if v != r.Verdict {
				s.Disagree = append(s.Disagree, "solver disagreement: "+results[0].Solver+" vs "+r.Solver)
			}
		}
	}
	if best != nil {
		return *best
	}
	out := ""
	for _, r := range results {
		out += "[" + r.Solver + "] " + strings.TrimSpace(firstLines(r.Output, 3)) + "\n"
	}
	return SolveResult{Verdict: "unknown", Solver: "none", Output: out}
}

func firstLines(s string, n int) string {
	ls := strings.Split(s, "\n")
	if len(ls) > n {
		ls = ls[:n]
	}
	return strings.Join(ls, "\n")
}

// parseValues parses "((name value) (name value) ...)" from get-value output.
func parseValues(text string) map[string]string {
	m := map[string]string{}
	i := strings.Index(text, "((")
	if i < 0 {
		return m
	}
	s := text[i+1:]
	// iterate over top-level (name value) pairs
	depth := 0
	start := -1
	for j := 0; j < len(s); j++ {
		switch s[j] {
		case '|':
			// quoted symbol
			k := strings.IndexByte(s[j+1:], '|')
			if k < 0 {
				return m
			}
			j += k + 1
		case '(':
			if depth == 0 {
				start = j
			}
			depth++
		case ')':
			depth--
			if depth == 0 && start >= 0 {
				pair := strings.TrimSpace(s[start+1 : j])
				var name, val string
				if strings.HasPrefix(pair, "|") {
					k := strings.IndexByte(pair[1:], '|')
					name = pair[1 : k+1]
					val = strings.TrimSpace(pair[k+2:])
				} else {
					sp := strings.IndexAny(pair, " \n\t")
					if sp < 0 {
						continue
					}
					name = pair[:sp]
					val = strings.TrimSpace(pair[sp:])
				}
				m[name] = val
				start = -1
			}
			if depth < 0 {
				return m
			}
		}
	}
	return m
}

// ExactQuery renders the query text with non-linear products as multiplication.
func ExactQuery(q string) string {
	return strings.ReplaceAll(strings.ReplaceAll(q, "@NLMULR@", "*"), "@NLMULI@", "*")
}
